package chain_test

import (
	"context"
	"fmt"
	"math/big"
	"strconv"
	"strings"
	"sync/atomic"
	"testing"
	"time"

	"github.com/ava-labs/avalanchego/database/memdb"
	"github.com/ava-labs/avalanchego/ids"
	"github.com/ava-labs/avalanchego/snow/engine/snowman/block"
	"github.com/ava-labs/avalanchego/trace"
	"github.com/ava-labs/avalanchego/utils/logging"
	"github.com/ava-labs/avalanchego/utils/set"
	"github.com/ava-labs/avalanchego/x/merkledb"
	"github.com/prometheus/client_golang/prometheus"

	"github.com/ava-labs/hypersdk/chain"
	"github.com/ava-labs/hypersdk/chain/chaintest"
	"github.com/ava-labs/hypersdk/codec"
	"github.com/ava-labs/hypersdk/fees"
	"github.com/ava-labs/hypersdk/genesis"
	"github.com/ava-labs/hypersdk/internal/validitywindow"
	"github.com/ava-labs/hypersdk/internal/validitywindow/validitywindowtest"
	"github.com/ava-labs/hypersdk/internal/verifh"
	"github.com/ava-labs/hypersdk/internal/verifx"
	"github.com/ava-labs/hypersdk/internal/workers"
	"github.com/ava-labs/hypersdk/state/balance"
	"github.com/ava-labs/hypersdk/state/metadata"

	internalfees "github.com/ava-labs/hypersdk/internal/fees"
)

// C07: a transaction is included only if its fee is at most Base.MaxFee; what it is charged is
// exactly the block's unit prices times its units under the block's rules, and only if it is
// in the block.
//
//   c07 <prices> <unitsR1> <unitsR2> <r2 = - | baseCompute,keyRead,keyAlloc,keyWrite> <maxBlockUnits>
//       <sponsor> <balance|-> <maxfee> <tsoff> <scope> <actions> <dup 0|1> <authok 0|1>
// fm (last field) = `-` | parentPrices/parentConsumed: the parent block's fee state. With `-` the
// fee state is empty and <prices> are pinned through Rules.MinUnitPrice; otherwise the parent
// block had unit prices P and consumption C (window target 1000, minimum price 1), so the NEXT
// block's prices — <prices> on the line, computed by the real fee manager and checked against
// the prices the real block reports — differ from the parent's (the fee market itself is C13).
// dup=1: the validity window reports the tx as a repeat; authok=0: Auth.Verify fails. Such lines
// exercise the rest of PreExecutor.PreExecute only (proc=na build=na).
// One transaction OBJECT through the three real decision points, in the order of a node's life:
//   adm   = PreExecutor.PreExecute (mempool admission) under the rules R1 in force now;
//   then the rule factory switches to R2 (rules are a function of the timestamp: R1 before T, R2
//   from T on; T = just after admission) and the SAME object is
//   proc  = verified by Processor.Execute in a block with timestamp >= T, and
//   build = built by Builder.BuildBlock at a time >= T.
// A second, freshly constructed copy of the transaction (what a node that only sees the block
// parses) is verified too and must produce the same Result and post-state.
// Output: `adm=<ok|err:class> proc=<ok:fee|err> build=<inc:fee|skip>`.
//
//   blk <prices> <maxBlockUnits> <bal1|-> <bal2|-> <tx;tx;...>   tx = sponsorIdx/units/maxfee/tsoff/scope/actions
// Several transactions in the mempool, one Builder.BuildBlock; MaxBlockUnits is small in some
// dimension so that only some fit. Output: `inc=<0|1,...> fees=<fee|-,...> bals=<b1|-,b2|->`.
//
// Unit prices are set through Rules.MinUnitPrice (empty fee state => next price = minimum).
// Timestamps are relative: tx expiry = (wall clock rounded down to 1 s) + tsoff.

type c07Mempool struct {
	txs []*chain.Transaction
}

func (m *c07Mempool) Len(context.Context) int                      { return len(m.txs) }
func (*c07Mempool) Size(context.Context) int                       { return 0 }
func (m *c07Mempool) Add(_ context.Context, t []*chain.Transaction) { m.txs = append(m.txs, t...) }
func (*c07Mempool) StartStreaming(context.Context)                 {}
func (*c07Mempool) PrepareStream(context.Context, int)             {}
func (m *c07Mempool) Stream(context.Context, int) []*chain.Transaction {
	t := m.txs
	m.txs = nil
	return t
}
func (*c07Mempool) FinishStreaming(_ context.Context, r []*chain.Transaction) int { return len(r) }

// c07Rules: the rules are a function of the timestamp — r1 before T, r2 from T on.
type c07Rules struct {
	r1, r2 *genesis.Rules
	T      atomic.Int64
}

func (s *c07Rules) GetRules(t int64) chain.Rules {
	if t < s.T.Load() {
		return s.r1
	}
	return s.r2
}

type c07Ctx struct {
	feeBytes func(base int64) []byte // parent fee state of the current line
	r   *verifh.Run
	ctx context.Context
	mm  chain.MetadataManager
	bh  *balance.PrefixBalanceHandler
}

func (c *c07Ctx) newState(base int64, bals map[string]uint64) merkledb.MerkleDB {
	db, err := merkledb.New(c.ctx, memdb.New(), merkledb.Config{BranchFactor: merkledb.BranchFactor16, Tracer: trace.Noop})
	if err != nil {
		panic(err)
	}
	put := func(k, v []byte) {
		if err := db.Put(k, v); err != nil {
			panic(err)
		}
	}
	put(chain.HeightKey(c.mm.HeightPrefix()), verifx.PutU64(0))
	put(chain.TimestampKey(c.mm.TimestampPrefix()), verifx.PutU64(uint64(base-1000)))
	feeState := []byte{}
	if c.feeBytes != nil {
		feeState = c.feeBytes(base)
	}
	put(chain.FeeKey(c.mm.FeePrefix()), feeState)
	for k, v := range bals {
		put([]byte(k), verifx.PutU64(v))
	}
	return db
}

type getter interface {
	GetValue(context.Context, []byte) ([]byte, error)
}

func (c *c07Ctx) balOf(v getter, key []byte) (*big.Int, bool) {
	b, err := v.GetValue(c.ctx, key)
	if err != nil {
		return new(big.Int), false
	}
	u, _ := verifx.U64(b)
	return new(big.Int).SetUint64(u), true
}

// parseFM parses `P0,..,P4/C0,..,C4`.
func parseFM(s string) (p, c fees.Dimensions, err error) {
	f := strings.Split(s, "/")
	if len(f) != 2 {
		return p, c, fmt.Errorf("bad fm")
	}
	if p, err = verifx.ParseDims(f[0]); err != nil {
		return
	}
	c, err = verifx.ParseDims(f[1])
	return
}

// parentFeeBytes is the fee state a parent block with timestamp parentTs, unit prices p and
// consumption c leaves behind.
func parentFeeBytes(rules *genesis.Rules, parentTs int64, p, c fees.Dimensions) []byte {
	m := internalfees.NewManager(nil).ComputeNext(parentTs, rules)
	for d := fees.Dimension(0); d < fees.FeeDimensions; d++ {
		m.SetUnitPrice(d, p[d])
		m.SetLastConsumed(d, c[d])
	}
	return append([]byte{}, m.Bytes()...)
}

func mkRules(prices, maxU fees.Dimensions, r2 string, fm ...bool) (*genesis.Rules, error) {
	rules := genesis.NewDefaultRules()
	rules.MinUnitPrice = prices
	rules.MaxBlockUnits = maxU
	rules.WindowTargetUnits = fees.Dimensions{1 << 40, 1 << 40, 1 << 40, 1 << 40, 1 << 40}
	if len(fm) > 0 && fm[0] {
		rules.MinUnitPrice = fees.Dimensions{1, 1, 1, 1, 1}
		rules.WindowTargetUnits = fees.Dimensions{1000, 1000, 1000, 1000, 1000}
	}
	if r2 != "-" {
		f := strings.Split(r2, ",")
		if len(f) != 4 {
			return nil, fmt.Errorf("bad r2")
		}
		var v [4]uint64
		for i := range f {
			x, err := strconv.ParseUint(f[i], 10, 32)
			if err != nil {
				return nil, err
			}
			v[i] = x
		}
		rules.BaseComputeUnits, rules.StorageKeyReadUnits, rules.StorageKeyAllocateUnits, rules.StorageKeyWriteUnits = v[0], v[1], v[2], v[3]
	}
	return rules, nil
}

func parseActs(ct *verifx.C03Tx, acts string) error {
	if acts == "none" {
		return nil
	}
	for _, as := range strings.Split(acts, "|") {
		a, err := verifx.ParseScriptAction(as)
		if err != nil {
			return err
		}
		ct.Actions = append(ct.Actions, a)
	}
	return nil
}

// buildTx constructs a new transaction object (fresh caches) from its description.
func buildTx(sponsor codec.Address, maxFee uint64, ts int64, scope, acts string, chainID ids.ID, badAuth ...bool) (*chain.Transaction, error) {
	ct := &verifx.C03Tx{Sponsor: sponsor, TS: ts, MaxFee: maxFee, AuthS: -1, AuthE: -1, BadAuth: len(badAuth) > 0 && badAuth[0]}
	var err error
	if ct.Scope, err = verifx.ParseScope(scope); err != nil {
		return nil, err
	}
	if err := parseActs(ct, acts); err != nil {
		return nil, err
	}
	return ct.Build(&verifx.Env{ChainID: chainID})
}

func TestVerifC07(t *testing.T) {
	r := verifh.Start("C07")
	defer r.Finish()
	c := &c07Ctx{r: r, ctx: context.Background(), mm: metadata.NewDefaultManager(),
		bh: balance.NewPrefixBalanceHandler([]byte{metadata.DefaultMinimumPrefix})}
	ctx, bh, mm := c.ctx, c.bh, c.mm
	sponsors := []codec.Address{verifx.Addr(1), verifx.Addr(2)}
	sponsorHex := verifh.Hex(sponsors[0][:])
	sks := [][]byte{bh.BalanceKey(sponsors[0]), bh.BalanceKey(sponsors[1])}
	k1 := "aa0001"
	chainID := genesis.NewDefaultRules().GetChainID()
	defMax := genesis.NewDefaultRules().MaxBlockUnits
	nowBase := func() int64 { return (time.Now().UnixMilli() / 1000) * 1000 }

	unitsOf := func(sp codec.Address, maxFee uint64, tsoff int64, scope, acts string, rules *genesis.Rules) fees.Dimensions {
		tx, err := buildTx(sp, maxFee, nowBase()+tsoff, scope, acts, chainID)
		if err != nil {
			panic(err)
		}
		u, err := tx.Units(bh, rules)
		if err != nil {
			panic(err)
		}
		return u
	}

	lines := r.ReplayLines()
	if lines == nil {
		rng := r.RNG
		zero := fees.Dimensions{}
		corpus := true
		fmField := "-"
		mkC07 := func(prices, maxU fees.Dimensions, r2, bal string, maxFee uint64, tsoff int64, scope, acts string) (string, fees.Dimensions) {
			ra, _ := mkRules(prices, maxU, "-")
			rb, err := mkRules(prices, maxU, r2)
			if err != nil {
				panic(err)
			}
			u1 := unitsOf(sponsors[0], maxFee, tsoff, scope, acts, ra)
			u2 := unitsOf(sponsors[0], maxFee, tsoff, scope, acts, rb)
			flags := "0 1"
			switch rng.Intn(14) {
			case 0:
				flags = "1 1"
			case 1:
				flags = "0 0"
			case 2:
				flags = "1 0"
			}
			if corpus {
				flags = "0 1"
			}
			return fmt.Sprintf("c07 %s %s %s %s %s %s %s %d %d %s %s %s", verifx.DimsString(prices), verifx.DimsString(u1), verifx.DimsString(u2), r2,
				verifx.DimsString(maxU), sponsorHex, bal, maxFee, tsoff, scope, acts, flags+" "+fmField), u2
		}
		hundred := fees.Dimensions{100, 100, 100, 100, 100}
		// corpus: the shape of vm.TestSubmitTx/valid_tx — default minimum price 100, MaxFee 1000
		l, _ := mkC07(hundred, defMax, "-", "1000000000", 1000, 30000, "-", ".")
		lines = append(lines, l)
		l, _ = mkC07(hundred, defMax, "-", "1000000000", 0, 30000, k1+":7", "w:"+k1+":01")
		lines = append(lines, l)
		l, _ = mkC07(fees.Dimensions{1, 1, 1, 1, 1}, defMax, "-", "5000", 1, 30000, "-", "none")
		lines = append(lines, l)
		randPrices := func() fees.Dimensions {
			var prices fees.Dimensions
			for d := range prices {
				prices[d] = uint64(rng.Intn(4))
				if rng.Chance(15) {
					prices[d] = 100
				}
			}
			return prices
		}
		randActs := func() (string, string) {
			switch rng.Intn(5) {
			case 0:
				return "-", "none"
			case 1:
				return k1 + ":7", "w:" + k1 + ":0102,r:" + k1
			case 2:
				return k1 + ":7", "w:" + k1 + ":01|x"
			case 3:
				return "-", ".|."
			}
			return "-", "."
		}
		// zero fee + sponsor without a balance record: PreExecute passes, Execute errors, the
		// builder aborts the whole build (C03 known finding; nothing is charged)
		l, _ = mkC07(zero, defMax, "-", "-", 0, 30000, "-", ".")
		lines = append(lines, l)
		corpus = false
		for i := 0; i < r.N(380, 6000); i++ {
			prices := randPrices()
			scope, acts := randActs()
			maxU := defMax
			if rng.Chance(10) {
				maxU[0] = uint64(100 + rng.Intn(200)) // bandwidth limit around the tx size
			}
			// rules of the block differ from the rules at admission in 45% of the cases
			r2 := "-"
			if rng.Chance(45) {
				r2 = fmt.Sprintf("%d,%d,%d,%d", 1+rng.Intn(6), 1+rng.Intn(12), 10+rng.Intn(30), 1+rng.Intn(25))
			}
			tsoff := int64(30000)
			switch rng.Intn(14) {
			case 0:
				tsoff = -5000
			case 1:
				tsoff = 70000
			case 2:
				tsoff = 30001
			case 3:
				tsoff = 10000
			}
			// price movement between the parent block and the next one (30% of the default-limit lines)
			fmField = "-"
			var parentFee uint64
			moved := maxU == defMax && rng.Chance(30)
			var pp, pc fees.Dimensions
			if moved {
				for d := range pp {
					pp[d] = uint64(20 + rng.Intn(180))
					if rng.Chance(50) {
						pc[d] = 5000 // above the window target: the price rises
					}
				}
				rfm, _ := mkRules(fees.Dimensions{}, maxU, "-", true)
				prices = internalfees.NewManager(parentFeeBytes(rfm, 1_700_000_000_000, pp, pc)).ComputeNext(1_700_000_001_000, rfm).UnitPrices()
				fmField = verifx.DimsString(pp) + "/" + verifx.DimsString(pc)
			}
			// running-sum overflow (8%): every single price*units product fits in uint64 but the sum
			// crosses 2^64 before the last dimension; the fee is not representable, the tx must
			// be rejected everywhere (fees.Manager.Fee: overflow of the running total)
			sumOverflow := !moved && maxU == defMax && rng.Chance(8)
			if sumOverflow {
				r2 = "-"
				_, u0 := mkC07(fees.Dimensions{}, maxU, r2, "-", 0, tsoff, scope, acts)
				second := 2 + rng.Intn(2)
				for d := range prices {
					prices[d] = uint64(rng.Intn(4))
				}
				prices[0] = ^uint64(0) / (u0[0] + 16) // margin: the size varies by a few bytes with MaxFee
				prices[second] = ^uint64(0) / (u0[second] + 16)
			}
			_, u := mkC07(prices, maxU, r2, "-", 0, tsoff, scope, acts)
			fee := verifx.BigFee(prices, u).Uint64() // fee under the block's rules
			if moved {
				parentFee = verifx.BigFee(pp, u).Uint64()
			}
			var maxFee uint64
			switch rng.Intn(7) {
			case 0:
				maxFee = 0
			case 1:
				maxFee = 1
			case 2:
				if fee > 0 {
					maxFee = fee - 1
				}
			case 3:
				maxFee = fee
			case 4:
				maxFee = fee + 1
			case 5:
				maxFee = ^uint64(0)
			default:
				maxFee = rng.Pick64()
			}
			bal := "-"
			switch rng.Intn(8) {
			case 0:
			case 1:
				if fee > 0 {
					bal = strconv.FormatUint(fee-1, 10)
				}
			case 2:
				bal = strconv.FormatUint(fee, 10)
			case 3:
				bal = strconv.FormatUint(maxFee, 10) // exactly what the user agreed to pay
			default:
				bal = strconv.FormatUint(fee+uint64(rng.Intn(1_000_000)), 10)
			}
			if sumOverflow {
				maxFee = ^uint64(0)
				bal = strconv.FormatUint(^uint64(0)-uint64(rng.Intn(1000)), 10) // the wrapped amount would be payable
			}
			if moved && rng.Chance(60) && parentFee != fee {
				// a balance between the fee at the parent's prices and the fee at the next block's
				bal = strconv.FormatUint((parentFee+fee)/2, 10)
			}
			l, _ := mkC07(prices, maxU, r2, bal, maxFee, tsoff, scope, acts)
			lines = append(lines, l)
		}
		fmField = "-"
		// blocks that fill up: n transactions, limits chosen so that only some of them fit
		for i := 0; i < r.N(160, 3000); i++ {
			prices := randPrices()
			ra, _ := mkRules(prices, defMax, "-")
			n := 2 + rng.Intn(5)
			type td struct {
				sp           int
				scope, acts  string
				maxFee       uint64
				u            fees.Dimensions
			}
			tds := make([]td, n)
			total := zero
			for j := range tds {
				// every tx of the block declares the same key with Write, so that the executor
				// must run them in mempool order (conflicting tasks are never reordered)
				sc := k1 + ":7"
				ac := []string{".", "w:" + k1 + ":0102,r:" + k1, "w:" + k1 + ":01|x", ".|.", "r:" + k1}[rng.Intn(5)]
				sp := 0
				if rng.Chance(35) {
					sp = 1
				}
				tds[j] = td{sp: sp, scope: sc, acts: ac, maxFee: rng.Pick64()/8*8 + uint64(j)} // distinct => distinct tx ids
				tds[j].u = unitsOf(sponsors[sp], tds[j].maxFee, 30000, sc, ac, ra)
				for d := range total {
					total[d] += tds[j].u[d]
				}
			}
			maxU := defMax
			if rng.Chance(85) {
				// one dimension admits only part of the demand (between one tx and all but one unit)
				d := rng.Intn(fees.FeeDimensions)
				lo := tds[0].u[d]
				if total[d] > lo {
					maxU[d] = lo + uint64(rng.Intn(int(total[d]-lo)))
				}
			}
			bals := [2]string{"-", "-"}
			for s := range bals {
				if rng.Chance(92) {
					bals[s] = strconv.FormatUint(uint64(1_000_000+rng.Intn(1_000_000)), 10)
				} else if rng.Chance(50) {
					bals[s] = strconv.FormatUint(uint64(rng.Intn(2000)), 10)
				}
			}
			parts := make([]string, n)
			for j, x := range tds {
				parts[j] = fmt.Sprintf("%d/%s/%d/%d/%s/%s", x.sp, verifx.DimsString(x.u), x.maxFee, 30000, x.scope, x.acts)
			}
			lines = append(lines, fmt.Sprintf("blk %s %s %s %s %s", verifx.DimsString(prices), verifx.DimsString(maxU), bals[0], bals[1], strings.Join(parts, ";")))
		}
	}

	vw := &validitywindowtest.MockTimeValidityWindow[*chain.Transaction]{}
	for _, l := range lines {
		f := verifh.Fields(l)
		c.feeBytes = nil
		metrics, err := chain.NewMetrics(prometheus.NewRegistry())
		if err != nil {
			panic(err)
		}
		// oracle verdicts are recorded after the op line has been emitted
		var pending []func()
		viol := func(key, format string, a ...any) {
			pending = append(pending, func() { r.Violation(key, format, a...) })
		}
		flush := func() {
			for _, p := range pending {
				p()
			}
		}

		// =========================================================== blk
		if len(f) == 6 && f[0] == "blk" {
			prices, e1 := verifx.ParseDims(f[1])
			maxU, e2 := verifx.ParseDims(f[2])
			bals := map[string]uint64{}
			var e3 error
			for s := 0; s < 2; s++ {
				if f[3+s] != "-" {
					b, err := strconv.ParseUint(f[3+s], 10, 64)
					if err != nil {
						e3 = err
					}
					bals[string(sks[s])] = b
				}
			}
			rules, _ := mkRules(prices, maxU, "-")
			base := nowBase()
			type btx struct {
				sp     int
				units  fees.Dimensions
				maxFee uint64
				tx     *chain.Transaction
			}
			var txs []btx
			bad := e1 != nil || e2 != nil || e3 != nil
			for _, ts := range strings.Split(f[5], ";") {
				p := strings.Split(ts, "/")
				if len(p) != 6 {
					bad = true
					break
				}
				sp, ea := strconv.Atoi(p[0])
				u, eb := verifx.ParseDims(p[1])
				mf, ec := strconv.ParseUint(p[2], 10, 64)
				tsoff, ed := strconv.ParseInt(p[3], 10, 64)
				if ea != nil || eb != nil || ec != nil || ed != nil || sp < 0 || sp > 1 {
					bad = true
					break
				}
				tx, err := buildTx(sponsors[sp], mf, base+tsoff, p[4], p[5], chainID)
				if err != nil {
					bad = true
					break
				}
				txs = append(txs, btx{sp: sp, units: u, maxFee: mf, tx: tx})
			}
			if bad || len(txs) == 0 {
				r.Emit(l, "bad-op")
				continue
			}
			mismatch := false
			for _, x := range txs {
				fresh, _ := chain.NewTransaction(x.tx.Base, x.tx.Actions, x.tx.Auth)
				if u, err := fresh.Units(bh, rules); err != nil || u != x.units {
					mismatch = true
				}
			}
			if mismatch {
				r.Emit(l, "units-mismatch")
				r.Violation("harness-units", "units on the op line differ from Transaction.Units: %s", l)
				continue
			}
			rf := &genesis.ImmutableRuleFactory{Rules: rules}
			db := c.newState(base, bals)
			parentBlk, err := chain.NewStatelessBlock(ids.Empty, base-1000, 0, nil, ids.Empty, &block.Context{})
			if err != nil {
				panic(err)
			}
			parent := &chain.OutputBlock{ExecutionBlock: chain.NewExecutionBlock(parentBlk), View: db}
			mp := &c07Mempool{}
			for _, x := range txs {
				mp.txs = append(mp.txs, x.tx)
			}
			b := chain.NewBuilder(trace.Noop, rf, &logging.NoLog{}, mm, bh, mp, vw, metrics, chain.NewDefaultConfig())
			eb, out, err := b.BuildBlock(ctx, &block.Context{}, parent)
			if err != nil {
				// abort of the whole build: by the model only a zero-fee tx of a sponsor without a
				// balance record causes it (C03 known finding); nothing is charged
				r.Emit(l, "abort:"+verifx.ClassErr(err))
				zeroFee := verifx.BigFee(prices, txs[0].units).Sign() == 0
				if !zeroFee {
					r.Violation("build-aborted", "Builder.BuildBlock returned %v", err)
				} else {
					r.Count("build-abort:zero-fee-absent-sponsor")
				}
				continue
			}
			resOf := map[ids.ID]*chain.Result{}
			for i, tx := range eb.StatelessBlock.Txs {
				resOf[tx.GetID()] = out.ExecutionResults.Results[i]
			}
			inc, fs := make([]string, len(txs)), make([]string, len(txs))
			paid := [2]*big.Int{new(big.Int), new(big.Int)}
			nInc := 0
			for i, x := range txs {
				res, ok := resOf[x.tx.GetID()]
				if !ok {
					inc[i], fs[i] = "0", "-"
					continue
				}
				nInc++
				inc[i], fs[i] = "1", strconv.FormatUint(res.Fee, 10)
				paid[x.sp].Add(paid[x.sp], new(big.Int).SetUint64(res.Fee))
				want := verifx.BigFee(prices, x.units)
				if want.Cmp(new(big.Int).SetUint64(res.Fee)) != 0 || res.Units != x.units {
					viol("fee-not-price-times-units", "built block: tx %d Result.Fee=%d units=%v, sum price*units=%s", i, res.Fee, res.Units, want)
				} else if res.Fee > x.maxFee {
					viol("fee-exceeds-maxfee", "Builder.BuildBlock included a tx with Result.Fee=%d > Base.MaxFee=%d", res.Fee, x.maxFee)
				}
			}
			if out.ExecutionResults.UnitPrices != prices {
				viol("harness-prices", "builder used unit prices %v, op line says %v", out.ExecutionResults.UnitPrices, prices)
			}
			// every sponsor's balance change = - sum of Result.Fee of ITS transactions in the block
			bs := make([]string, 2)
			for s := 0; s < 2; s++ {
				post, present := c.balOf(out.View, sks[s])
				bs[s] = "-"
				if present {
					bs[s] = post.String()
				}
				pre := new(big.Int).SetUint64(bals[string(sks[s])])
				want := new(big.Int).Sub(pre, paid[s])
				switch post.Cmp(want) {
				case -1:
					viol("charged-for-excluded-tx", "sponsor %d: balance %s -> %s but the fees of its %d-tx block inclusions sum to %s (block has %d of %d txs)", s+1, pre, post, nInc, paid[s], nInc, len(txs))
				case 1:
					viol("charged-differs-from-fee", "sponsor %d: balance %s -> %s, fees of its included txs sum to %s", s+1, pre, post, paid[s])
				}
			}
			// the state every verifier derives from the built block must be the builder's
			{
				vdb := c.newState(base, bals)
				p := chain.NewProcessor(trace.Noop, &logging.NoLog{}, rf, workers.NewSerial(), chaintest.NewDummyTestAuthEngines(), mm, bh, vw, metrics, chain.NewDefaultConfig())
				vout, err := p.Execute(ctx, vdb, eb, true)
				if err != nil {
					viol("built-block-rejected", "Processor.Execute rejects the block the builder produced: %v", err)
				} else {
					for s := 0; s < 2; s++ {
						a, _ := c.balOf(out.View, sks[s])
						bb, _ := c.balOf(vout.View, sks[s])
						if a.Cmp(bb) != 0 {
							viol("builder-verifier-state-differ", "sponsor %d balance: builder %s, verifier %s", s+1, a, bb)
						}
					}
				}
			}
			r.Emit(l, fmt.Sprintf("inc=%s fees=%s bals=%s", strings.Join(inc, ","), strings.Join(fs, ","), strings.Join(bs, ",")))
			flush()
			r.Count(fmt.Sprintf("blk-included:%d/%d", nInc, len(txs)))
			if nInc < len(txs) && nInc > 0 {
				r.Distinct(l)
			}
			continue
		}

		// =========================================================== c07
		if len(f) != 15 || f[0] != "c07" || f[6] != sponsorHex || (f[12] != "0" && f[12] != "1") || (f[13] != "0" && f[13] != "1") {
			r.Emit(l, "bad-op")
			continue
		}
		dup, authOk := f[12] == "1", f[13] == "1"
		prices, e1 := verifx.ParseDims(f[1])
		units1, e2 := verifx.ParseDims(f[2])
		units2, e2b := verifx.ParseDims(f[3])
		maxU, e3 := verifx.ParseDims(f[5])
		maxFee, e4 := strconv.ParseUint(f[8], 10, 64)
		tsoff, e5 := strconv.ParseInt(f[9], 10, 64)
		bals := map[string]uint64{}
		var e7 error
		if f[7] != "-" {
			b, err := strconv.ParseUint(f[7], 10, 64)
			bals[string(sks[0])], e7 = b, err
		}
		moved := f[14] != "-"
		rules1, _ := mkRules(prices, maxU, "-", moved)
		rules2, e6 := mkRules(prices, maxU, f[4], moved)
		if moved {
			pp, pc, err := parseFM(f[14])
			if err != nil {
				e6 = err
			}
			c.feeBytes = func(base int64) []byte { return parentFeeBytes(rules1, base-1000, pp, pc) }
		}
		base := nowBase()
		tx, e8 := buildTx(sponsors[0], maxFee, base+tsoff, f[10], f[11], chainID, !authOk)
		if e1 != nil || e2 != nil || e2b != nil || e3 != nil || e4 != nil || e5 != nil || e6 != nil || e7 != nil || e8 != nil {
			r.Emit(l, "bad-op")
			continue
		}
		fresh := func() *chain.Transaction {
			t2, err := chain.NewTransaction(tx.Base, tx.Actions, tx.Auth)
			if err != nil {
				panic(err)
			}
			return t2
		}
		ru1, uerr1 := fresh().Units(bh, rules1)
		ru2, uerr2 := fresh().Units(bh, rules2)
		if uerr1 != nil || uerr2 != nil || ru1 != units1 || ru2 != units2 {
			r.Emit(l, fmt.Sprintf("units-mismatch real=%s / %s", verifx.DimsString(ru1), verifx.DimsString(ru2)))
			r.Violation("harness-units", "units on the op line differ from Transaction.Units: %s", l)
			continue
		}
		fee1 := verifx.BigFee(prices, units1) // at admission (rules R1)
		fee := verifx.BigFee(prices, units2)  // in the block (rules R2)
		preBal := new(big.Int).SetUint64(bals[string(sks[0])])
		rf := &c07Rules{r1: rules1, r2: rules2}
		rf.T.Store(1 << 62)

		// what the oracle checks for an included transaction
		included := func(where string, res *chain.Result, pricesUsed fees.Dimensions, post *big.Int) {
			if pricesUsed != prices {
				viol("harness-prices", "%s used unit prices %v, op line says %v", where, pricesUsed, prices)
			}
			got := new(big.Int).SetUint64(res.Fee)
			switch {
			case got.Cmp(fee) != 0 || res.Units != units2:
				viol("fee-not-price-times-units", "%s: Result.Fee=%d Result.Units=%v; under the block's rules units=%v, sum price*units=%s", where, res.Fee, res.Units, units2, fee)
			case new(big.Int).Add(post, got).Cmp(preBal) != 0:
				viol("charged-differs-from-fee", "%s: sponsor balance %s -> %s with Result.Fee=%d", where, preBal, post, res.Fee)
			case res.Fee > maxFee:
				// the fee is exactly price*units, it was charged, and it exceeds the signed maximum
				viol("fee-exceeds-maxfee", "%s included a tx with Result.Fee=%d > Base.MaxFee=%d (prices %v units %v)", where, res.Fee, maxFee, prices, units2)
			}
		}

		// ---- admission (rules R1: the switch time T is still in the future)
		adm := "ok"
		admVW := &validitywindowtest.MockTimeValidityWindow[*chain.Transaction]{}
		if dup {
			admVW.OnIsRepeat = func(context.Context, validitywindow.ExecutionBlock[*chain.Transaction], []*chain.Transaction, int64) (set.Bits, error) {
				return set.NewBits(0), nil
			}
		}
		pe := chain.NewPreExecutor(rf, admVW, mm, bh)
		if err := pe.PreExecute(ctx, nil, c.newState(base, bals), tx); err != nil {
			adm = "err:" + verifx.ClassErr(err)
		} else if fee1.IsUint64() && fee1.Uint64() > maxFee {
			viol("fee-exceeds-maxfee", "PreExecutor.PreExecute admitted a tx whose fee at the next block's prices is %s > Base.MaxFee=%d", fee1, maxFee)
		}
		if adm == "ok" && !fee1.IsUint64() {
			viol("fee-not-price-times-units", "PreExecutor.PreExecute admitted a tx whose fee sum price*units = %s does not fit in uint64 (prices %v units %v)", fee1, prices, units1)
		}
		// admission must check the balance against the fee at the NEXT block's unit prices
		if !dup && authOk {
			switch {
			case adm == "ok" && preBal.Cmp(fee1) < 0:
				viol("admission-fee-ne-next-block-fee", "admitted although the sponsor balance %s is below the fee %s the next block charges (prices %v)", preBal, fee1, prices)
			case adm == "err:insufficient" && preBal.Cmp(fee1) >= 0:
				viol("admission-fee-ne-next-block-fee", "rejected for insufficient balance although the sponsor balance %s covers the fee %s the next block charges (prices %v)", preBal, fee1, prices)
			}
		}
		if dup || !authOk {
			if adm == "ok" {
				viol("bad-tx-admitted", "PreExecutor.PreExecute admitted a tx with dup=%v authok=%v", dup, authOk)
			}
			r.Emit(l, fmt.Sprintf("adm=%s proc=na build=na", adm))
			flush()
			r.Count("adm:" + adm)
			continue
		}
		// ---- the rules change: R2 from T on; everything below happens at timestamps >= T
		T := time.Now().UnixMilli() + 1
		rf.T.Store(T)
		for time.Now().UnixMilli() < T+1 {
			time.Sleep(time.Millisecond)
		}

		// ---- processor: the object that went through admission, and a freshly parsed copy
		verify := func(t *chain.Transaction) (*chain.Result, *big.Int, fees.Dimensions, error) {
			db := c.newState(base, bals)
			root, err := db.GetMerkleRoot(ctx)
			if err != nil {
				panic(err)
			}
			blk, err := chain.NewStatelessBlock(ids.Empty, time.Now().UnixMilli(), 1, []*chain.Transaction{t}, root, &block.Context{})
			if err != nil {
				panic(err)
			}
			p := chain.NewProcessor(trace.Noop, &logging.NoLog{}, rf, workers.NewSerial(), chaintest.NewDummyTestAuthEngines(), mm, bh, vw, metrics, chain.NewDefaultConfig())
			out, err := p.Execute(ctx, db, chain.NewExecutionBlock(blk), true)
			if err != nil {
				return nil, nil, fees.Dimensions{}, err
			}
			post, _ := c.balOf(out.View, sks[0])
			return out.ExecutionResults.Results[0], post, out.ExecutionResults.UnitPrices, nil
		}
		proc := "err"
		resA, postA, pricesA, errA := verify(tx)
		resB, postB, _, errB := verify(fresh())
		if errA == nil {
			proc = fmt.Sprintf("ok:%d", resA.Fee)
			included("Processor.Execute", resA, pricesA, postA)
		} else {
			proc = "err:" + verifx.ClassErr(errA)
		}
		switch {
		case (errA == nil) != (errB == nil):
			viol("units-depend-on-earlier-call", "the tx object that went through admission verifies with err=%v, a freshly parsed copy with err=%v", errA, errB)
		case errA == nil && (resA.Units != resB.Units || resA.Fee != resB.Fee || postA.Cmp(postB) != 0):
			viol("units-depend-on-earlier-call", "same block, same tx: the node that admitted it gets units=%v fee=%d balance=%s, a node that parsed it from the block gets units=%v fee=%d balance=%s",
				resA.Units, resA.Fee, postA, resB.Units, resB.Fee, postB)
		}

		// ---- builder (same object)
		build := "skip"
		{
			db := c.newState(base, bals)
			parentBlk, err := chain.NewStatelessBlock(ids.Empty, base-1000, 0, nil, ids.Empty, &block.Context{})
			if err != nil {
				panic(err)
			}
			parent := &chain.OutputBlock{ExecutionBlock: chain.NewExecutionBlock(parentBlk), View: db}
			mp := &c07Mempool{txs: []*chain.Transaction{tx}}
			b := chain.NewBuilder(trace.Noop, rf, &logging.NoLog{}, mm, bh, mp, vw, metrics, chain.NewDefaultConfig())
			eb, out, err := b.BuildBlock(ctx, &block.Context{}, parent)
			post, _ := new(big.Int), false
			if err == nil {
				post, _ = c.balOf(out.View, sks[0])
			}
			switch {
			case err != nil:
				// BuildBlock returned an error: the whole build is aborted
				build = "abort:" + verifx.ClassErr(err)
				if _, has := bals[string(sks[0])]; !has && fee.Sign() == 0 {
					r.Count("build-abort:zero-fee-absent-sponsor") // C03 known finding; nothing is charged
				} else {
					viol("build-aborted", "Builder.BuildBlock returned %v", err)
				}
			case len(eb.StatelessBlock.Txs) == 1:
				res := out.ExecutionResults.Results[0]
				build = fmt.Sprintf("inc:%d", res.Fee)
				included("Builder.BuildBlock", res, out.ExecutionResults.UnitPrices, post)
			case post.Cmp(preBal) != 0:
				viol("charged-for-excluded-tx", "Builder.BuildBlock skipped the tx but the sponsor balance went %s -> %s", preBal, post)
			}
		}
		r.Emit(l, fmt.Sprintf("adm=%s proc=%s build=%s", adm, proc, build))
		flush()
		r.Count("adm:" + adm)
		r.Count("proc:" + strings.SplitN(proc, ":", 2)[0])
		r.Count("build:" + strings.SplitN(build, ":", 2)[0])
		if f[4] != "-" {
			r.Count("rules-change")
		}
		if fee.IsUint64() && fee.Uint64() > maxFee {
			r.Distinct(l)
			r.Count("fee>maxfee")
		} else {
			r.Count("fee<=maxfee")
		}
	}
}
