package chain_test

import (
	"context"
	"fmt"
	"math/big"
	"strconv"
	"strings"
	"testing"
	"time"

	"github.com/ava-labs/avalanchego/database/memdb"
	"github.com/ava-labs/avalanchego/ids"
	"github.com/ava-labs/avalanchego/snow/engine/snowman/block"
	"github.com/ava-labs/avalanchego/trace"
	"github.com/ava-labs/avalanchego/utils/logging"
	"github.com/ava-labs/avalanchego/x/merkledb"
	"github.com/prometheus/client_golang/prometheus"

	"github.com/ava-labs/hypersdk/chain"
	"github.com/ava-labs/hypersdk/chain/chaintest"
	"github.com/ava-labs/hypersdk/fees"
	"github.com/ava-labs/hypersdk/genesis"
	"github.com/ava-labs/hypersdk/internal/validitywindow/validitywindowtest"
	"github.com/ava-labs/hypersdk/internal/verifh"
	"github.com/ava-labs/hypersdk/internal/verifx"
	"github.com/ava-labs/hypersdk/internal/workers"
	"github.com/ava-labs/hypersdk/state/balance"
	"github.com/ava-labs/hypersdk/state/metadata"
)

// C07: a transaction is included only if its fee is at most Base.MaxFee.
//
//   c07 <prices> <units> <maxBlockUnits> <sponsor> <balance|-> <maxfee> <tsoff> <scope> <actions>
//
// One line = one transaction run through the three real decision points, each on a fresh
// merkledb state {height, timestamp, fee, sponsor balance}:
//   adm   = PreExecutor.PreExecute            (mempool admission, Submit path)
//   proc  = Processor.Execute of a block containing only this tx (verification)
//   build = Builder.BuildBlock with the tx alone in the mempool
// Output: `adm=<ok|err:class> proc=<ok:fee|err> build=<inc:fee|skip>`.
// Unit prices are set through Rules.MinUnitPrice (empty fee state => next price = minimum).
// Timestamps are relative: tx expiry = (wall clock rounded down to 1 s) + tsoff.

type c07Mempool struct {
	txs []*chain.Transaction
}

func (m *c07Mempool) Len(context.Context) int                    { return len(m.txs) }
func (*c07Mempool) Size(context.Context) int                     { return 0 }
func (m *c07Mempool) Add(_ context.Context, t []*chain.Transaction) { m.txs = append(m.txs, t...) }
func (*c07Mempool) StartStreaming(context.Context)               {}
func (*c07Mempool) PrepareStream(context.Context, int)           {}
func (m *c07Mempool) Stream(context.Context, int) []*chain.Transaction {
	t := m.txs
	m.txs = nil
	return t
}
func (*c07Mempool) FinishStreaming(_ context.Context, r []*chain.Transaction) int { return len(r) }

func TestVerifC07(t *testing.T) {
	r := verifh.Start("C07")
	defer r.Finish()
	ctx := context.Background()
	mm := metadata.NewDefaultManager()
	bh := balance.NewPrefixBalanceHandler([]byte{metadata.DefaultMinimumPrefix})
	sponsor := verifx.Addr(1)
	sponsorHex := verifh.Hex(sponsor[:])
	sk := bh.BalanceKey(sponsor)
	k1 := "aa0001"

	mkLine := func(prices fees.Dimensions, maxU fees.Dimensions, bal string, maxFee uint64, tsoff int64, scope, acts string) (string, fees.Dimensions) {
		// units of the real transaction (the timestamp's varint width is the same for every
		// wall-clock value in this century)
		env := verifx.NewEnv()
		ct := &verifx.C03Tx{Sponsor: sponsor, TS: (time.Now().UnixMilli()/1000)*1000 + tsoff, MaxFee: maxFee, AuthS: -1, AuthE: -1}
		var err error
		if ct.Scope, err = verifx.ParseScope(scope); err != nil {
			panic(err)
		}
		if acts != "none" {
			for _, as := range strings.Split(acts, "|") {
				a, err := verifx.ParseScriptAction(as)
				if err != nil {
					panic(err)
				}
				ct.Actions = append(ct.Actions, a)
			}
		}
		tx, err := ct.Build(env)
		if err != nil {
			panic(err)
		}
		u, err := tx.Units(bh, env.Rules)
		if err != nil {
			panic(err)
		}
		return fmt.Sprintf("c07 %s %s %s %s %s %d %d %s %s", verifx.DimsString(prices), verifx.DimsString(u), verifx.DimsString(maxU),
			sponsorHex, bal, maxFee, tsoff, scope, acts), u
	}

	lines := r.ReplayLines()
	if lines == nil {
		rng := r.RNG
		defMax := genesis.NewDefaultRules().MaxBlockUnits
		hundred := fees.Dimensions{100, 100, 100, 100, 100}
		// corpus: the shape of vm.TestSubmitTx/valid_tx — default minimum price 100, MaxFee 1000
		l, _ := mkLine(hundred, defMax, "1000000000", 1000, 30000, "-", ".")
		lines = append(lines, l)
		l, _ = mkLine(hundred, defMax, "1000000000", 0, 30000, k1+":7", "w:"+k1+":01")
		lines = append(lines, l)
		l, _ = mkLine(fees.Dimensions{1, 1, 1, 1, 1}, defMax, "5000", 1, 30000, "-", "none")
		lines = append(lines, l)
		for i := 0; i < r.N(600, 8000); i++ {
			var prices fees.Dimensions
			for d := range prices {
				prices[d] = uint64(rng.Intn(4))
				if rng.Chance(15) {
					prices[d] = 100
				}
			}
			scope, acts := "-", "."
			switch rng.Intn(5) {
			case 0:
				acts = "none"
			case 1:
				scope, acts = k1+":7", "w:"+k1+":0102,r:"+k1
			case 2:
				scope, acts = k1+":7", "w:"+k1+":01|x"
			case 3:
				acts = ".|."
			}
			maxU := defMax
			if rng.Chance(10) {
				maxU[0] = uint64(100 + rng.Intn(200)) // bandwidth limit around the tx size
			}
			tsoff := int64(30000)
			switch rng.Intn(14) {
			case 0:
				tsoff = -5000
			case 1:
				tsoff = 70000
			case 2:
				tsoff = 30001
			case 3:
				tsoff = 10000
			}
			_, u := mkLine(prices, maxU, "-", 0, tsoff, scope, acts)
			fee := verifx.BigFee(prices, u).Uint64()
			var maxFee uint64
			switch rng.Intn(7) {
			case 0:
				maxFee = 0
			case 1:
				maxFee = 1
			case 2:
				if fee > 0 {
					maxFee = fee - 1
				}
			case 3:
				maxFee = fee
			case 4:
				maxFee = fee + 1
			case 5:
				maxFee = ^uint64(0)
			default:
				maxFee = rng.Pick64()
			}
			bal := "-"
			switch rng.Intn(8) {
			case 0:
			case 1:
				if fee > 0 {
					bal = strconv.FormatUint(fee-1, 10)
				}
			case 2:
				bal = strconv.FormatUint(fee, 10)
			case 3:
				bal = strconv.FormatUint(maxFee, 10) // exactly what the user agreed to pay
			default:
				bal = strconv.FormatUint(fee+uint64(rng.Intn(1_000_000)), 10)
			}
			l, _ := mkLine(prices, maxU, bal, maxFee, tsoff, scope, acts)
			lines = append(lines, l)
		}
	}

	for _, l := range lines {
		f := verifh.Fields(l)
		if len(f) != 10 || f[0] != "c07" || f[4] != sponsorHex {
			r.Emit(l, "bad-op")
			continue
		}
		prices, e1 := verifx.ParseDims(f[1])
		units, e2 := verifx.ParseDims(f[2])
		maxU, e3 := verifx.ParseDims(f[3])
		maxFee, e4 := strconv.ParseUint(f[6], 10, 64)
		tsoff, e5 := strconv.ParseInt(f[7], 10, 64)
		scope, e6 := verifx.ParseScope(f[8])
		var bal *uint64
		var e7 error
		if f[5] != "-" {
			b, err := strconv.ParseUint(f[5], 10, 64)
			bal, e7 = &b, err
		}
		ct := &verifx.C03Tx{Sponsor: sponsor, MaxFee: maxFee, AuthS: -1, AuthE: -1, Scope: scope}
		var e8 error
		if f[9] != "none" {
			for _, as := range strings.Split(f[9], "|") {
				a, err := verifx.ParseScriptAction(as)
				if err != nil {
					e8 = err
					break
				}
				ct.Actions = append(ct.Actions, a)
			}
		}
		if e1 != nil || e2 != nil || e3 != nil || e4 != nil || e5 != nil || e6 != nil || e7 != nil || e8 != nil || (len(ct.Actions) == 0 && len(scope) > 0) {
			r.Emit(l, "bad-op")
			continue
		}

		rules := genesis.NewDefaultRules()
		rules.MinUnitPrice = prices
		rules.MaxBlockUnits = maxU
		rules.WindowTargetUnits = fees.Dimensions{1 << 40, 1 << 40, 1 << 40, 1 << 40, 1 << 40}
		rf := &genesis.ImmutableRuleFactory{Rules: rules}
		env := &verifx.Env{Rules: rules, ChainID: rules.GetChainID()}
		base := (time.Now().UnixMilli() / 1000) * 1000
		ct.TS = base + tsoff
		tx, err := ct.Build(env)
		if err != nil {
			r.Emit(l, "bad-op")
			continue
		}
		realUnits, uerr := tx.Units(bh, rules)
		if uerr != nil || realUnits != units {
			r.Emit(l, fmt.Sprintf("units-mismatch real=%s err=%v", verifx.DimsString(realUnits), uerr))
			r.Violation("harness-units", "units on the op line differ from Transaction.Units: %s", l)
			continue
		}
		fee := verifx.BigFee(prices, units)

		newState := func() merkledb.MerkleDB {
			db, err := merkledb.New(ctx, memdb.New(), merkledb.Config{BranchFactor: merkledb.BranchFactor16, Tracer: trace.Noop})
			if err != nil {
				panic(err)
			}
			put := func(k, v []byte) {
				if err := db.Put(k, v); err != nil {
					panic(err)
				}
			}
			put(chain.HeightKey(mm.HeightPrefix()), verifx.PutU64(0))
			put(chain.TimestampKey(mm.TimestampPrefix()), verifx.PutU64(uint64(base-1000)))
			put(chain.FeeKey(mm.FeePrefix()), []byte{})
			if bal != nil {
				put(sk, verifx.PutU64(*bal))
			}
			return db
		}
		balOf := func(v interface {
			GetValue(context.Context, []byte) ([]byte, error)
		}) *big.Int {
			b, err := v.GetValue(ctx, sk)
			if err != nil {
				return new(big.Int)
			}
			u, _ := verifx.U64(b)
			return new(big.Int).SetUint64(u)
		}
		preBal := new(big.Int)
		if bal != nil {
			preBal.SetUint64(*bal)
		}
		vw := &validitywindowtest.MockTimeValidityWindow[*chain.Transaction]{}
		metrics, err := chain.NewMetrics(prometheus.NewRegistry())
		if err != nil {
			panic(err)
		}

		// oracle verdicts are recorded after the op line has been emitted
		var pending []func()
		viol := func(key, format string, a ...any) {
			pending = append(pending, func() { r.Violation(key, format, a...) })
		}
		// what the oracle checks for an included transaction
		included := func(where string, res *chain.Result, pricesUsed fees.Dimensions, post *big.Int) {
			if pricesUsed != prices {
				viol("harness-prices", "%s used unit prices %v, op line says %v", where, pricesUsed, prices)
			}
			got := new(big.Int).SetUint64(res.Fee)
			switch {
			case got.Cmp(fee) != 0:
				viol("fee-not-price-times-units", "%s: Result.Fee=%d, sum price*units=%s", where, res.Fee, fee)
			case new(big.Int).Add(post, got).Cmp(preBal) != 0:
				viol("charged-differs-from-fee", "%s: sponsor balance %s -> %s with Result.Fee=%d", where, preBal, post, res.Fee)
			case res.Fee > maxFee:
				// the fee is exactly price*units, it was charged, and it exceeds the signed maximum
				viol("fee-exceeds-maxfee", "%s included a tx with Result.Fee=%d > Base.MaxFee=%d (prices %v units %v)", where, res.Fee, maxFee, prices, units)
			}
		}

		// ---- admission
		adm := "ok"
		pe := chain.NewPreExecutor(rf, vw, mm, bh)
		if err := pe.PreExecute(ctx, nil, newState(), tx); err != nil {
			adm = "err:" + verifx.ClassErr(err)
		} else if fee.IsUint64() && fee.Uint64() > maxFee {
			viol("fee-exceeds-maxfee", "PreExecutor.PreExecute admitted a tx whose fee at the next block's prices is %s > Base.MaxFee=%d", fee, maxFee)
		}

		// ---- processor
		proc := "err"
		{
			db := newState()
			root, err := db.GetMerkleRoot(ctx)
			if err != nil {
				panic(err)
			}
			blk, err := chain.NewStatelessBlock(ids.Empty, base, 1, []*chain.Transaction{tx}, root, &block.Context{})
			if err != nil {
				panic(err)
			}
			p := chain.NewProcessor(trace.Noop, &logging.NoLog{}, rf, workers.NewSerial(), chaintest.NewDummyTestAuthEngines(), mm, bh, vw, metrics, chain.NewDefaultConfig())
			out, err := p.Execute(ctx, db, chain.NewExecutionBlock(blk), true)
			if err == nil {
				res := out.ExecutionResults.Results[0]
				proc = fmt.Sprintf("ok:%d", res.Fee)
				included("Processor.Execute", res, out.ExecutionResults.UnitPrices, balOf(out.View))
			} else {
				r.Count("proc-err:" + verifx.ClassErr(err))
			}
		}

		// ---- builder
		build := "skip"
		{
			db := newState()
			parentBlk, err := chain.NewStatelessBlock(ids.Empty, base-1000, 0, nil, ids.Empty, &block.Context{})
			if err != nil {
				panic(err)
			}
			parent := &chain.OutputBlock{ExecutionBlock: chain.NewExecutionBlock(parentBlk), View: db}
			mp := &c07Mempool{txs: []*chain.Transaction{tx}}
			b := chain.NewBuilder(trace.Noop, rf, &logging.NoLog{}, mm, bh, mp, vw, metrics, chain.NewDefaultConfig())
			eb, out, err := b.BuildBlock(ctx, &block.Context{}, parent)
			if err != nil {
				build = "err:" + verifx.ClassErr(err)
			} else if len(eb.StatelessBlock.Txs) == 1 {
				res := out.ExecutionResults.Results[0]
				build = fmt.Sprintf("inc:%d", res.Fee)
				included("Builder.BuildBlock", res, out.ExecutionResults.UnitPrices, balOf(out.View))
			}
		}
		r.Emit(l, fmt.Sprintf("adm=%s proc=%s build=%s", adm, proc, build))
		for _, p := range pending {
			p()
		}
		r.Count("adm:" + adm)
		r.Count("proc:" + strings.SplitN(proc, ":", 2)[0])
		r.Count("build:" + strings.SplitN(build, ":", 2)[0])
		if fee.IsUint64() && fee.Uint64() > maxFee {
			r.Distinct(l)
			r.Count("fee>maxfee")
		} else {
			r.Count("fee<=maxfee")
		}
	}
}
