package chain_test

// C02: a block built by Builder.BuildBlock over a real mempool verifies on the same parent
// (fresh Processor, block re-parsed from its bytes) with identical root, results, prices, consumed.
//
// Tie (`run 1 <order>` lines): single execution core; the order in which the builder's worker
// processed the transactions is observed through the auth hook and handed to the Lean model,
// which must reproduce block content, post-state, results, consumption and the restore list.
// Oracle (`run` and `par <cores>` lines): build → verify equality; key `build-verify-mismatch`.

import (
	"context"
	"encoding/binary"
	"fmt"
	"sort"
	"strconv"
	"strings"
	"sync"
	"testing"
	"time"

	"github.com/ava-labs/avalanchego/ids"
	"github.com/ava-labs/avalanchego/trace"
	"github.com/ava-labs/avalanchego/utils/logging"
	"github.com/ava-labs/avalanchego/utils/set"
	"github.com/prometheus/client_golang/prometheus"

	"github.com/ava-labs/hypersdk/chain"
	"github.com/ava-labs/hypersdk/fees"
	"github.com/ava-labs/hypersdk/genesis"
	"github.com/ava-labs/hypersdk/internal/mempool"
	"github.com/ava-labs/hypersdk/internal/validitywindow"
	"github.com/ava-labs/hypersdk/internal/validitywindow/validitywindowtest"
	"github.com/ava-labs/hypersdk/internal/verifh"
	"github.com/ava-labs/hypersdk/internal/workers"

	internalfees "github.com/ava-labs/hypersdk/internal/fees"
)

type c02Case struct {
	prices, maxUnits, target fees.Dimensions
	cap                      int
	parentHeight             uint64
	minEmptyGap              int64 // rules.MinEmptyBlockGap; the parent is always 5 s older than the build
	pf                       string // parent fee state: "-" (empty bytes) or "<price>/<newest window slot>/<lastConsumed>" (all dimensions)
	parent                   map[int]uint64
	specs                    []hTxSpec
	dups                     []bool
	nontrivial               bool
}

// hTimeRules is a scheduled upgrade: `before` until `at` (ms), `after` from then on.
type hTimeRules struct {
	at            int64
	before, after *genesis.Rules
}

func (f *hTimeRules) GetRules(t int64) chain.Rules {
	if t < f.at {
		return f.before
	}
	return f.after
}

// hMempool records what the builder restores.
type hMempool struct {
	*mempool.Mempool[*chain.Transaction]
	mu       sync.Mutex
	restored []*chain.Transaction
	started  bool
	done     chan struct{}
}

func (m *hMempool) StartStreaming(ctx context.Context) {
	m.mu.Lock()
	m.started = true
	m.mu.Unlock()
	m.Mempool.StartStreaming(ctx)
}

func (m *hMempool) FinishStreaming(ctx context.Context, r []*chain.Transaction) int {
	m.mu.Lock()
	m.restored = append([]*chain.Transaction{}, r...)
	m.mu.Unlock()
	n := m.Mempool.FinishStreaming(ctx, r)
	close(m.done)
	return n
}

func TestVerifC02(t *testing.T) {
	r := verifh.Start("C02")
	defer r.Finish()
	lines := r.ReplayLines()
	if lines == nil {
		lines = c02Generate(r)
	}
	metrics, err := chain.NewMetrics(prometheus.NewRegistry())
	if err != nil {
		t.Fatal(err)
	}
	var c *c02Case
	for _, l := range lines {
		f := verifh.Fields(l)
		if len(f) == 0 {
			continue
		}
		switch {
		case f[0] == "build" && len(f) == 10:
			p, e1 := parseDims(f[2])
			m, e2 := parseDims(f[3])
			tg, e3 := parseDims(f[4])
			cp, e4 := strconv.Atoi(f[5])
			ph, e5 := strconv.ParseUint(f[6], 10, 32)
			mg, e6 := strconv.ParseInt(f[7], 10, 64)
			// the parent is 5000 ms old: gaps within 2 s of that would make the outcome depend on scheduling delays
			if n, e0 := strconv.Atoi(f[1]); e0 != nil || n != hNumKeys || e1 != nil || e2 != nil || e3 != nil || e4 != nil || e5 != nil || e6 != nil || cp < 0 || mg < 100 || (mg > 3000 && mg < 30000) {
				r.Emit(l, "bad-op")
				c = nil
				continue
			}
			c = &c02Case{prices: p, maxUnits: m, target: tg, cap: cp, parentHeight: ph, minEmptyGap: mg, pf: f[8], parent: map[int]uint64{}}
			now := time.Now().UnixMilli()
			raw, err := c02ParentFee(c.pf, now-5000)
			if err != nil {
				r.Emit(l, "bad-op")
				c = nil
				continue
			}
			// the prices the block will use, from the running code (deterministic: see c02ParentFee)
			f[9] = dimsStr(internalfees.NewManager(raw).ComputeNext(now, hRules(p, m, tg)).UnitPrices(), ",")
			if c.pf != "-" {
				r.Count("build:parent-fee-state")
			}
			r.Emit(strings.Join(f, " "), "ok")
		case f[0] == "parent" && c != nil && len(c.specs) == 0:
			vals, err := parseParentLine(f[1:])
			if err != nil {
				r.Emit(l, "bad-op")
				continue
			}
			c.parent = vals
			r.Emit(l, "ok")
		case f[0] == "mtx" && len(f) == 9 && c != nil:
			id, e0 := strconv.Atoi(f[1])
			sp, e1 := strconv.Atoi(f[2])
			if e0 != nil || e1 != nil || id != len(c.specs) || (f[8] != "0" && f[8] != "1") {
				r.Emit(l, "bad-op")
				continue
			}
			spec := hTxSpec{id: id, sponsor: sp, pre: f[3], units: f[4], keys: f[5], prog: f[6]}
			tx, err := buildTx(spec, time.Now().UnixMilli(), 60_000, uint32(id), false)
			if err != nil {
				r.Emit(l, "bad-op")
				continue
			}
			u, err := tx.Units(hBalance, hRules(c.prices, c.maxUnits, c.target))
			if err != nil {
				r.Emit(l, "bad-op")
				continue
			}
			f[4], f[5], f[7] = dimsStr(u, ","), declaredKeysLine(tx), strconv.Itoa(tx.Size())
			spec.units, spec.keys = f[4], f[5]
			c.specs = append(c.specs, spec)
			c.dups = append(c.dups, f[8] == "1")
			c.nontrivial = len(c.specs) >= 2
			r.Count("mtx:pre=" + f[3])
			if f[8] == "1" {
				r.Count("mtx:dup")
			}
			r.Emit(strings.Join(f, " "), "ok")
		case (f[0] == "run" || f[0] == "par") && len(f) == 3 && c != nil:
			cores, e0 := strconv.Atoi(f[1])
			if e0 != nil || cores < 1 || cores > 64 || (f[0] == "run" && cores != 1) {
				r.Emit(l, "bad-op")
				continue
			}
			out, order, pout, emitted, viol := c02Run(metrics, c, cores, r)
			if f[0] == "run" {
				r.Emit(fmt.Sprintf("run 1 %s", order), out)
			} else {
				// multi-core: the model is given the emitted block and must verify it to the same outputs
				r.Emit(fmt.Sprintf("par %d %s", cores, emitted), pout)
			}
			for _, v := range viol {
				r.Violation(v[0], "%s (cores=%d, %d mempool txs)", v[1], cores, len(c.specs))
			}
			if c.nontrivial {
				r.Distinct(fmt.Sprint(c.specs, c.dups, c.maxUnits, c.cap))
			}
		default:
			r.Emit(l, "bad-op")
		}
	}
	hCompleted = true
}

// c02Run builds on a fresh parent + mempool, verifies the built block, and renders the result.
func c02Run(metrics *chain.ChainMetrics, c *c02Case, cores int, r *verifh.Run) (out, orderStr, pout, emitted string, viol [][2]string) {
	ctx := context.Background()
	now := time.Now().UnixMilli()
	parentTs := now - 5000
	rules := hRules(c.prices, c.maxUnits, c.target)
	rules.MinEmptyBlockGap = c.minEmptyGap
	feeRaw, err := c02ParentFee(c.pf, parentTs)
	if err != nil {
		return "err-fee", "-", "err-fee", "!", nil
	}
	db, err := newParentDBFee(c.parent, c.parentHeight, parentTs, feeRaw)
	if err != nil {
		return "err-db", "-", "err-db", "!", nil
	}
	txs := make([]*chain.Transaction, len(c.specs))
	idOf := map[ids.ID]int{}
	dupSet := set.Set[ids.ID]{}
	for i, sp := range c.specs {
		tx, err := buildTx(sp, now, rules.ValidityWindow, uint32(i), i%3 == 0)
		if err != nil {
			return "err-tx", "-", "err-tx", "!", nil
		}
		txs[i] = tx
		idOf[tx.GetID()] = i
		if c.dups[i] {
			dupSet.Add(tx.GetID())
		}
	}
	// History before the build: the txs were admitted 10 s ago, under the rule set that was in
	// force then (a scheduled upgrade of the metering constants activated 6 s ago, before the
	// parent block). Admission meters and pre-executes each tx, as PreExecutor.PreExecute does.
	old := *rules
	old.BaseComputeUnits += 20
	old.StorageKeyReadUnits += 3
	old.StorageValueReadUnits++
	old.StorageKeyAllocateUnits += 7
	old.StorageKeyWriteUnits += 2
	old.StorageValueWriteUnits += 4
	rf := &hTimeRules{at: now - 6000, before: &old, after: rules}
	admitted := now - 10000
	admFees := internalfees.NewManager(feeRaw).ComputeNext(admitted, rf.GetRules(admitted).(*genesis.Rules))
	for _, tx := range txs {
		_ = tx.PreExecute(ctx, admFees, hBalance, rf.GetRules(admitted), db, admitted)
	}
	mp := &hMempool{Mempool: mempool.New[*chain.Transaction](trace.Noop, 100_000, 100_000), done: make(chan struct{})}
	mp.Add(ctx, txs)
	vw := &validitywindowtest.MockTimeValidityWindow[*chain.Transaction]{
		OnIsRepeat: func(_ context.Context, _ validitywindow.ExecutionBlock[*chain.Transaction], cs []*chain.Transaction, _ int64) (set.Bits, error) {
			b := set.NewBits()
			for i, tx := range cs {
				if dupSet.Contains(tx.GetID()) {
					b.Add(i)
				}
			}
			return b, nil
		},
	}
	cfg := chain.Config{TargetBuildDuration: time.Hour, TransactionExecutionCores: cores, StateFetchConcurrency: cores, TargetTxsSize: c.cap}
	builder := chain.NewBuilder(trace.Noop, rf, &logging.NoLog{}, hMeta, hBalance, mp, vw, metrics, cfg)
	pblk, err := chain.NewStatelessBlock(ids.Empty, parentTs, c.parentHeight, nil, ids.Empty, nil)
	if err != nil {
		return "err-parent", "-", "err-parent", "!", nil
	}
	parentOut := &chain.OutputBlock{ExecutionBlock: chain.NewExecutionBlock(pblk), View: db}

	var omu sync.Mutex
	var order []string
	setAuthHook(func(idx uint32) {
		omu.Lock()
		order = append(order, strconv.Itoa(int(idx)))
		omu.Unlock()
	})
	type bres struct {
		eb  *chain.ExecutionBlock
		ob  *chain.OutputBlock
		err error
	}
	ch := make(chan bres, 1)
	go func() {
		eb, ob, err := builder.BuildBlock(ctx, nil, parentOut)
		ch <- bres{eb, ob, err}
	}()
	var b bres
	select {
	case b = <-ch:
	case <-time.After(120 * time.Second):
		setAuthHook(nil)
		return "hang", "-", "hang", "!", [][2]string{{"build-hang", "BuildBlock did not return within 120s"}}
	}
	setAuthHook(nil)
	mp.mu.Lock()
	streaming := mp.started
	mp.mu.Unlock()
	if streaming { // a build that fails before StartStreaming has nothing to restore
		select {
		case <-mp.done:
		case <-time.After(10 * time.Second):
			viol = append(viol, [2]string{"build-hang", "FinishStreaming was not called within 10s of BuildBlock returning"})
		}
	}
	orderStr = "-"
	if len(order) > 0 {
		orderStr = strings.Join(order, ",")
	}
	if b.err != nil {
		r.Count("build:err")
		return "builderr", orderStr, "builderr", "!", viol
	}
	r.Count(fmt.Sprintf("build:txs=%d", (len(b.eb.StatelessBlock.Txs)+4)/5*5))
	builtRoot, err := b.ob.View.GetMerkleRoot(ctx)
	if err != nil {
		return "err-root", orderStr, "err-root", "!", viol
	}
	builtRes := func() string {
		return fmt.Sprintf("res=%s prices=%s consumed=%s",
			showResults(func(i int) int { return idOf[b.eb.StatelessBlock.Txs[i].GetID()] }, b.ob.ExecutionResults.Results),
			dimsStr(b.ob.ExecutionResults.UnitPrices, "."), dimsStr(b.ob.ExecutionResults.UnitsConsumed, "."))
	}()
	if len(b.ob.ExecutionResults.Results) != len(b.eb.StatelessBlock.Txs) {
		viol = append(viol, [2]string{"build-verify-mismatch", "builder returned a different number of results than transactions"})
	}

	// verification on a "fresh node": block parsed from bytes, new processors, same parent view,
	// and a validity window that really rejects txs of an ancestor and txs repeated in the block
	strict := &validitywindowtest.MockTimeValidityWindow[*chain.Transaction]{
		OnVerifyExpiryReplayProtection: func(_ context.Context, blk validitywindow.ExecutionBlock[*chain.Transaction]) error {
			seen := set.Set[ids.ID]{}
			for _, tx := range blk.GetContainers() {
				if dupSet.Contains(tx.GetID()) {
					return fmt.Errorf("tx %s is already in an ancestor inside the validity window", tx.GetID())
				}
				if seen.Contains(tx.GetID()) {
					return fmt.Errorf("tx %s twice in the block", tx.GetID())
				}
				seen.Add(tx.GetID())
			}
			return nil
		},
	}
	for _, vc := range []int{1, 4} {
		parsed, err := chain.UnmarshalBlock(b.eb.GetBytes(), hParser())
		if err != nil {
			viol = append(viol, [2]string{"build-verify-mismatch", "built block does not parse: " + err.Error()})
			break
		}
		type vres struct {
			o   *chain.OutputBlock
			err error
		}
		vch := make(chan vres, 1)
		go func() {
			w := workers.NewSerial()
			if vc > 1 {
				w = workers.NewParallel(vc, 100)
			}
			o, err := c01NewProcessorRF(metrics, rf, w, vc, vc, strict).Execute(ctx, db, chain.NewExecutionBlock(parsed), true)
			w.Stop()
			vch <- vres{o, err}
		}()
		var v vres
		select {
		case v = <-vch:
		case <-time.After(120 * time.Second):
			viol = append(viol, [2]string{"verify-hang", "Processor.Execute of the built block did not return within 120s"})
			continue
		}
		if v.err != nil {
			viol = append(viol, [2]string{"build-verify-mismatch", fmt.Sprintf("verification (cores=%d) of the built block fails: %v", vc, v.err)})
			continue
		}
		vroot, err := v.o.View.GetMerkleRoot(ctx)
		vr := fmt.Sprintf("res=%s prices=%s consumed=%s",
			showResults(func(i int) int { return idOf[parsed.Txs[i].GetID()] }, v.o.ExecutionResults.Results),
			dimsStr(v.o.ExecutionResults.UnitPrices, "."), dimsStr(v.o.ExecutionResults.UnitsConsumed, "."))
		if err != nil || vroot != builtRoot || vr != builtRes {
			viol = append(viol, [2]string{"build-verify-mismatch", fmt.Sprintf("verification (cores=%d) gives root=%s %s but the builder had root=%s %s", vc, vroot, vr, builtRoot, builtRes)})
		}
	}

	var bt []string
	for _, tx := range b.eb.StatelessBlock.Txs {
		bt = append(bt, strconv.Itoa(idOf[tx.GetID()]))
	}
	var rest []int
	mp.mu.Lock()
	for _, tx := range mp.restored {
		if i := idOf[tx.GetID()]; c.specs[i].pre == "1" {
			rest = append(rest, i)
		}
	}
	mp.mu.Unlock()
	sort.Ints(rest)
	rs := make([]string, len(rest))
	for i, v := range rest {
		rs[i] = strconv.Itoa(v)
	}
	hk, _, _ := hMetaKeys()
	hv, _ := b.ob.View.GetValue(ctx, hk)
	height := "?"
	if len(hv) == 8 {
		height = strconv.FormatUint(binary.BigEndian.Uint64(hv), 10)
	}
	join := func(a []string) string {
		if len(a) == 0 {
			return "-"
		}
		return strings.Join(a, ",")
	}
	post := showPost(ctx, b.ob.View)
	return fmt.Sprintf("ok txs=%s post=%s h=%s %s restored=%s", join(bt), post, height, builtRes, join(rs)), orderStr,
		fmt.Sprintf("ok post=%s h=%s %s", post, height, builtRes), join(bt), viol
}

// c02ParentFee builds the parent's fee-manager bytes. Units sit only in the newest window slot and
// in lastConsumed, so the window total — hence the next price — is the same for every build that
// starts 1..9 s after the parent, however long the harness is stalled in between.
func c02ParentFee(pf string, parentTs int64) ([]byte, error) {
	if pf == "-" {
		return []byte{}, nil
	}
	a := strings.Split(pf, "/")
	if len(a) != 3 {
		return nil, fmt.Errorf("bad parent fee")
	}
	var v [3]uint64
	for i := range a {
		x, err := strconv.ParseUint(a[i], 10, 64)
		if err != nil {
			return nil, err
		}
		v[i] = x
	}
	const dimLen = 8 + 80 + 8
	raw := make([]byte, 8+fees.FeeDimensions*dimLen)
	binary.BigEndian.PutUint64(raw[0:8], uint64(parentTs/1000))
	for d := 0; d < fees.FeeDimensions; d++ {
		st := 8 + d*dimLen
		binary.BigEndian.PutUint64(raw[st:], v[0])
		binary.BigEndian.PutUint64(raw[st+8+9*8:], v[1])
		binary.BigEndian.PutUint64(raw[st+8+80:], v[2])
	}
	return raw, nil
}

// ---------------------------------------------------------------- generator

func c02EmitCase(lines *[]string, prices, maxUnits, target string, cap int, ph int, parent string, txs []*hGenTx, dups []bool, par []int) {
	c02EmitCaseGap(lines, prices, maxUnits, target, cap, ph, 750, parent, txs, dups, par)
}

func c02EmitCaseGap(lines *[]string, prices, maxUnits, target string, cap int, ph int, gap int, parent string, txs []*hGenTx, dups []bool, par []int) {
	pf := "-"
	if (len(*lines)/7)%3 == 1 { // a third of the cases: parent with a non-trivial fee state (price above/below the minimum)
		pf = []string{"150/0/0", "100/3000/40", "400/1/1", "1/100000/100000", "37/50/0"}[(len(*lines)/11)%5]
	}
	*lines = append(*lines, fmt.Sprintf("build %d %s %s %s %d %d %d %s 0,0,0,0,0", hNumKeys, prices, maxUnits, target, cap, ph, gap, pf), parent)
	for i, g := range txs {
		d := "0"
		if dups[i] {
			d = "1"
		}
		*lines = append(*lines, fmt.Sprintf("mtx %d %d %s 0,0,0,0,0 %s %s 0 %s", i, g.sponsor, g.pre, g.keysField(), g.progField(), d))
	}
	*lines = append(*lines, "run 1 -")
	for _, p := range par {
		*lines = append(*lines, fmt.Sprintf("par %d -", p))
	}
}

func c02Generate(r *verifh.Run) []string {
	rng := r.RNG
	var lines []string
	mk := func(sp int, keys map[int]int, acts ...[]string) *hGenTx {
		keys[sp] |= 5
		return &hGenTx{sponsor: sp, pre: "1", keys: keys, acts: acts}
	}
	par := "parent 0=1 1=2 3=3 8=1000000000000 9=1000000000000 10=1000000000000"
	huge := c01Huge
	// corpus: empty mempool; conflicting chain with a failing action; unit-limit skip then stop; size cap; dup; expired
	c02EmitCase(&lines, "100,100,100,100,100", huge, huge, 1<<20, 0, par, nil, nil, []int{4})
	c02EmitCase(&lines, "100,100,100,100,100", huge, huge, 1<<20, 7, par, []*hGenTx{
		mk(8, map[int]int{0: 7}, []string{"g0", "p0=7"}), mk(9, map[int]int{0: 1}, []string{"g0"}),
		mk(10, map[int]int{0: 7, 4: 7}, []string{"d0", "p4=1"}, []string{"g0", "f"}), mk(9, map[int]int{0: 1, 4: 1}, []string{"g0", "g4"}),
	}, []bool{false, false, false, false}, []int{4, 16})
	c02EmitCase(&lines, "1,1,1,1,1", "1800000,7,2000,2000,2000", "1800000,5,2000,2000,2000", 1<<20, 3, par, []*hGenTx{
		mk(8, map[int]int{4: 1}, []string{"g4"}), mk(9, map[int]int{5: 1}, []string{"g5"}), mk(10, map[int]int{6: 1}, []string{"g6"}), mk(8, map[int]int{7: 1}, []string{"g7"}),
	}, []bool{false, false, false, false}, []int{4})
	exp := mk(9, map[int]int{5: 7}, []string{"p5=1"})
	exp.pre = "0e"
	c02EmitCase(&lines, "1,1,1,1,1", huge, huge, 250, 1, par, []*hGenTx{
		mk(8, map[int]int{4: 7}, []string{"p4=1"}), exp, mk(10, map[int]int{6: 7}, []string{"p6=1"}), mk(8, map[int]int{7: 7}, []string{"p7=1"}), mk(9, map[int]int{7: 1}, []string{"g7"}),
	}, []bool{false, false, true, false, false}, []int{4})
	// zero prices + sponsor without balance entry: Execute errors, the build fails as a whole
	c02EmitCase(&lines, "0,0,0,0,0", huge, huge, 1<<20, 1, "parent 9=5", []*hGenTx{mk(9, map[int]int{4: 7}, []string{"p4=1"}), mk(8, map[int]int{5: 7}, []string{"p5=1"})}, []bool{false, false}, nil)

	// too early for an *empty* block (MinEmptyBlockGap 60 s, parent 5 s old): empty mempool; a mempool
	// whose txs are all dropped during the build (expired, duplicate, underfunded, unit limit); one survivor
	exp2 := mk(8, map[int]int{4: 7}, []string{"p4=1"})
	exp2.pre = "0e"
	c02EmitCaseGap(&lines, "100,100,100,100,100", huge, huge, 1<<20, 2, 60000, par, nil, nil, []int{4})
	c02EmitCaseGap(&lines, "100,100,100,100,100", huge, huge, 1<<20, 2, 60000, "parent 8=1000000000000 9=10", []*hGenTx{
		exp2, mk(8, map[int]int{5: 7}, []string{"p5=1"}), mk(9, map[int]int{6: 7}, []string{"p6=1"}), mk(10, map[int]int{7: 7}, []string{"p7=1"}),
	}, []bool{false, true, false, false}, []int{4})
	c02EmitCaseGap(&lines, "100,100,100,100,100", huge, huge, 1<<20, 2, 60000, par, []*hGenTx{exp2, mk(8, map[int]int{5: 7}, []string{"p5=1"})}, []bool{false, false}, []int{4})

	priceChoices := []string{"100,100,100,100,100", "1,1,1,1,1", "1,2,3,4,5", "1000,1,1,1,1"}
	ncases := r.N(110, 2500)
	if hRace {
		ncases = r.N(40, 300)
	}
	for n := ncases; n > 0; n-- {
		ntx := rng.Intn(61)
		if r.Thorough() && rng.Chance(4) {
			ntx = 200 + rng.Intn(400) // crosses the 256-tx stream batches
		}
		nhot := 1 + rng.Intn(hNumActionKeys)
		hot := make([]int, nhot)
		for i := range hot {
			hot[i] = rng.Intn(hNumActionKeys)
		}
		var txs []*hGenTx
		var dups []bool
		for i := 0; i < ntx; i++ {
			g := genTx(rng, hot, 12)
			if rng.Chance(8) {
				g.pre = []string{"0e", "0f", "0c", "0m"}[rng.Intn(4)]
			}
			txs = append(txs, g)
			dups = append(dups, rng.Chance(7))
		}
		prices := priceChoices[rng.Intn(len(priceChoices))]
		maxUnits, target := huge, huge
		cap := 1 << 20
		if rng.Chance(45) && ntx > 0 {
			lim := strings.Split(huge, ",")
			tg := strings.Split(huge, ",")
			var v int
			switch d := rng.Intn(3); d {
			case 0:
				v = 3 + rng.Intn(5*ntx+1)
				lim[1], tg[1] = strconv.Itoa(v), strconv.Itoa(1+rng.Intn(v+1))
			case 1:
				v = 7 + rng.Intn(20*ntx+1)
				lim[2], tg[2] = strconv.Itoa(v), strconv.Itoa(1+rng.Intn(v+1))
			default:
				v = 100 + rng.Intn(150*ntx+1)
				lim[0], tg[0] = strconv.Itoa(v), strconv.Itoa(1+rng.Intn(v+1))
			}
			maxUnits, target = strings.Join(lim, ","), strings.Join(tg, ",")
		}
		if rng.Chance(25) {
			cap = rng.Intn(130*ntx + 100)
		}
		gap := 750
		parentLine := genParent(rng, rng.Chance(25))
		if rng.Chance(30) {
			gap = 60000 // an empty block is not allowed yet
			switch rng.Intn(3) {
			case 0: // every tx is dropped or skipped before inclusion
				if len(txs) > 8 {
					txs, dups = txs[:8], dups[:8]
				}
				for i, g := range txs {
					switch rng.Intn(4) {
					case 0:
						dups[i] = true
					case 1:
						g.sponsor, g.keys = hNumActionKeys, map[int]int{hNumActionKeys: 5} // sponsor 0 has no funds below
						if len(g.acts) > 0 {
							g.acts = [][]string{{}}
						}
					default:
						g.pre = []string{"0e", "0f", "0c", "0m"}[rng.Intn(4)]
					}
				}
				parentLine = fmt.Sprintf("parent %d=1000000000000 %d=1000000000000", hNumActionKeys+1, hNumActionKeys+2)
				if rng.Bool() {
					parentLine += fmt.Sprintf(" %d=%d", hNumActionKeys, rng.Intn(50))
				}
			case 1:
				txs, dups = nil, nil
			}
		}
		c02EmitCaseGap(&lines, prices, maxUnits, target, cap, rng.Intn(1000), gap, parentLine, txs, dups, []int{4, 16}[:1+rng.Intn(2)])
	}
	return lines
}
