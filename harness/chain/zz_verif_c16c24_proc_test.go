package chain_test

// Processor-level ties of C16 (TestVerifC16P) and C24 (TestVerifC24P): real blocks through
// chain.NewProcessor(...).Execute — the `observe_at` point of both properties.
// Overlaid into /repo/chain at build time; never committed to /repo.

import (
	"context"
	"crypto/ecdsa"
	"crypto/elliptic"
	"crypto/sha256"
	"encoding/binary"
	"errors"
	"fmt"
	"math/big"
	"sort"
	"strconv"
	"strings"
	"sync"
	"testing"
	"time"

	"github.com/ava-labs/avalanchego/database/memdb"
	"github.com/ava-labs/avalanchego/ids"
	"github.com/ava-labs/avalanchego/snow/engine/snowman/block"
	"github.com/ava-labs/avalanchego/trace"
	"github.com/ava-labs/avalanchego/utils/logging"
	"github.com/ava-labs/avalanchego/x/merkledb"
	"github.com/prometheus/client_golang/prometheus"

	"github.com/ava-labs/hypersdk/auth"
	"github.com/ava-labs/hypersdk/chain"
	"github.com/ava-labs/hypersdk/chain/chaintest"
	"github.com/ava-labs/hypersdk/codec"
	"github.com/ava-labs/hypersdk/crypto"
	"github.com/ava-labs/hypersdk/crypto/bls"
	"github.com/ava-labs/hypersdk/crypto/ed25519"
	"github.com/ava-labs/hypersdk/crypto/secp256r1"
	"github.com/ava-labs/hypersdk/fees"
	"github.com/ava-labs/hypersdk/genesis"
	"github.com/ava-labs/hypersdk/internal/validitywindow/validitywindowtest"
	"github.com/ava-labs/hypersdk/internal/verifh"
	"github.com/ava-labs/hypersdk/internal/workers"
	"github.com/ava-labs/hypersdk/state"
	"github.com/ava-labs/hypersdk/state/balance"
	"github.com/ava-labs/hypersdk/state/metadata"
)

const (
	pvBlockTime = int64(1000)
	pvTxTime    = int64(2000)
	pvActionID  = 0x51
	pvFunds     = uint64(1) << 50
	pvExecTO    = 20 * time.Second
)

var (
	pvBalance = balance.NewPrefixBalanceHandler([]byte{metadata.DefaultMinimumPrefix})
	pvMeta    = metadata.NewDefaultManager()
	pvChainID = ids.ID{0xC1, 0x6}
)

// pvKey: action key name -> state key (prefix 0x10, 1 chunk)
func pvKey(name string) []byte {
	return append(append([]byte{0x10}, name...), 0, 1)
}

// pvAction reads every declared key (the output lists what it saw), then treats each key by its
// mode: 0 read only (declared Read); 'w' write "w<nonce>"; 'r' declared with write permission but only
// read; 's' rewrite the value it just read (unchanged content); 'd' delete. With Fail set the action
// returns an error after its writes, so the transaction is rolled back.
type pvAction struct {
	Nonce uint64
	Keys  []string
	Modes []byte
	Fail  bool
}

var errPVScripted = errors.New("scripted action failure")

func (*pvAction) GetTypeID() uint8                      { return pvActionID }
func (*pvAction) ValidRange(chain.Rules) (int64, int64) { return -1, -1 }
func (*pvAction) ComputeUnits(chain.Rules) uint64       { return 1 }

func (a *pvAction) Bytes() []byte {
	b := []byte{pvActionID}
	b = binary.BigEndian.AppendUint64(b, a.Nonce)
	for i, k := range a.Keys {
		b = append(b, byte(len(k)))
		b = append(b, k...)
		b = append(b, a.Modes[i])
	}
	if a.Fail {
		b = append(b, 0xff)
	}
	return b
}

func (a *pvAction) StateKeys(codec.Address, ids.ID) state.Keys {
	ks := state.Keys{}
	for i, k := range a.Keys {
		p := state.Read
		if a.Modes[i] != 0 {
			p = state.All
		}
		ks[string(pvKey(k))] |= p
	}
	return ks
}

func (a *pvAction) Execute(ctx context.Context, _ chain.Rules, mu state.Mutable, _ int64, _ codec.Address, _ ids.ID) ([]byte, error) {
	out := []byte{}
	seen := make([][]byte, len(a.Keys))
	for i, k := range a.Keys {
		v, err := mu.GetValue(ctx, pvKey(k))
		switch {
		case err == nil:
			out = append(out, 1, byte(len(v)))
			out = append(out, v...)
			seen[i] = append([]byte{}, v...)
		case strings.Contains(err.Error(), "not found"):
			out = append(out, 0)
		default:
			return nil, err
		}
	}
	for i, k := range a.Keys {
		var err error
		switch a.Modes[i] {
		case 'w':
			err = mu.Insert(ctx, pvKey(k), []byte("w"+strconv.FormatUint(a.Nonce, 10)))
		case 's':
			if seen[i] != nil {
				err = mu.Insert(ctx, pvKey(k), seen[i])
			}
		case 'd':
			err = mu.Remove(ctx, pvKey(k))
		}
		if err != nil {
			return nil, err
		}
	}
	if a.Fail {
		return nil, errPVScripted
	}
	return out, nil
}

// pvParseOutput -> per declared key: (present, value)
func pvParseOutput(out []byte, n int) ([]bool, []string, bool) {
	pres, vals := make([]bool, 0, n), make([]string, 0, n)
	p := 0
	for i := 0; i < n; i++ {
		if p >= len(out) {
			return nil, nil, false
		}
		if out[p] == 0 {
			pres, vals = append(pres, false), append(vals, "")
			p++
			continue
		}
		if p+2 > len(out) || p+2+int(out[p+1]) > len(out) {
			return nil, nil, false
		}
		pres, vals = append(pres, true), append(vals, string(out[p+2:p+2+int(out[p+1])]))
		p += 2 + int(out[p+1])
	}
	return pres, vals, p == len(out)
}

var errPVInjected = errors.New("injected parent read error")

// pvView records every read of the parent state and can fail chosen keys.
type pvView struct {
	merkledb.View
	mu   sync.Mutex
	log  []string
	fail map[string]bool
}

func (v *pvView) GetValue(ctx context.Context, key []byte) ([]byte, error) {
	v.mu.Lock()
	v.log = append(v.log, string(key))
	f := v.fail[string(key)]
	v.mu.Unlock()
	if f {
		// a slow failing read: it may return after the processor finished its Fetch loop
		time.Sleep(time.Duration(len(key)%3) * time.Millisecond)
		return nil, errPVInjected
	}
	return v.View.GetValue(ctx, key)
}

func pvRules() *genesis.Rules {
	r := genesis.NewDefaultRules()
	r.ChainID = pvChainID
	r.MaxBlockUnits = fees.Dimensions{1 << 40, 1 << 40, 1 << 40, 1 << 40, 1 << 40}
	return r
}

func pvNewDB(vals map[string][]byte) (merkledb.MerkleDB, error) {
	db, err := merkledb.New(context.Background(), memdb.New(), merkledb.Config{BranchFactor: merkledb.BranchFactor16, Tracer: trace.Noop})
	if err != nil {
		return nil, err
	}
	hk, tk, fk := chain.HeightKey(pvMeta.HeightPrefix()), chain.TimestampKey(pvMeta.TimestampPrefix()), chain.FeeKey(pvMeta.FeePrefix())
	if err := errors.Join(db.Put(hk, binary.BigEndian.AppendUint64(nil, 0)), db.Put(tk, binary.BigEndian.AppendUint64(nil, 0)), db.Put(fk, []byte{})); err != nil {
		return nil, err
	}
	for k, v := range vals {
		if err := db.Put([]byte(k), v); err != nil {
			return nil, err
		}
	}
	return db, nil
}

type pvExecResult struct {
	out  *chain.OutputBlock
	err  error
	hang bool
}

// pvExecute builds the block on top of `parent` and runs Processor.Execute with a hang detector.
func pvExecute(t *testing.T, parent merkledb.View, root ids.ID, txs []*chain.Transaction, engines chain.AuthEngines, sigWorkers, cores, fetchConc int) pvExecResult {
	metrics, err := chain.NewMetrics(prometheus.NewRegistry())
	if err != nil {
		t.Fatal(err)
	}
	cfg := chain.NewDefaultConfig()
	cfg.TransactionExecutionCores = cores
	cfg.StateFetchConcurrency = fetchConc
	pool := workers.NewParallel(sigWorkers, 4)
	proc := chain.NewProcessor(trace.Noop, &logging.NoLog{}, &genesis.ImmutableRuleFactory{Rules: pvRules()}, pool,
		engines, pvMeta, pvBalance, &validitywindowtest.MockTimeValidityWindow[*chain.Transaction]{}, metrics, cfg)
	blk, err := chain.NewStatelessBlock(ids.Empty, pvBlockTime, 1, txs, root, &block.Context{})
	if err != nil {
		t.Fatal(err)
	}
	ch := make(chan pvExecResult, 1)
	go func() {
		out, err := proc.Execute(context.Background(), parent, chain.NewExecutionBlock(blk), true)
		ch <- pvExecResult{out: out, err: err}
	}()
	select {
	case r := <-ch:
		go pool.Stop()
		return r
	case <-time.After(pvExecTO):
		return pvExecResult{hang: true}
	}
}

// ================================================================= C24 at block level
//
//   exec conc=<fetch concurrency> cores=<execution cores> P <key>=<rd>* T <tx>[!]:<key>[+w|+r|+s|+d],..*
//     key modes: +w write a new value, +r declared writable but only read, +s rewrite the value read,
//     +d delete; <tx>! = the action fails after its writes (the transaction is rolled back)
//     rd: v<value> (any length incl. 0) | a (absent) | f (the parent read of that key fails)
//     -> ok | err | hang
// Oracle: parent reads ⊆ declared keys ∪ sponsor balance keys ∪ {height, timestamp, fee}, each
// at most once, all of them when the block executes; every tx sees, for each declared key, the
// value written by the latest earlier tx of the block that wrote it, else the parent's value or
// absence; an injected read error fails Execute (never hangs, never reads as absence).

func TestVerifC24P(t *testing.T) {
	r := verifh.Start("C24")
	defer r.Finish()
	lines := r.ReplayLines()
	if lines == nil {
		lines = pv24Generate(r)
	}
	for _, l := range lines {
		f := verifh.Fields(l)
		out, vios := pv24Exec(t, r, f)
		r.Emit(l, out)
		for _, v := range vios {
			r.Violation(v[0], "%s (%s)", v[1], l)
		}
		if len(vios) > 0 {
			r.Flush()
		}
	}
}

func pv24Exec(t *testing.T, r *verifh.Run, f []string) (string, [][2]string) {
	var vios [][2]string
	viol := func(key, format string, a ...any) { vios = append(vios, [2]string{key, fmt.Sprintf(format, a...)}) }
	if len(f) < 5 || f[0] != "exec" || !strings.HasPrefix(f[1], "conc=") || !strings.HasPrefix(f[2], "cores=") || f[3] != "P" {
		return "bad-op", nil
	}
	conc, e1 := strconv.Atoi(f[1][5:])
	cores, e2 := strconv.Atoi(f[2][6:])
	if e1 != nil || e2 != nil || conc < 1 || conc > 64 || cores < 1 || cores > 64 {
		return "bad-op", nil
	}
	parent := map[string]string{} // name -> rd
	i := 4
	for ; i < len(f) && f[i] != "T"; i++ {
		p := strings.SplitN(f[i], "=", 2)
		if len(p) != 2 || p[1] == "" || !strings.ContainsRune("vaf", rune(p[1][0])) {
			return "bad-op", nil
		}
		parent[p[0]] = p[1]
	}
	if i >= len(f) {
		return "bad-op", nil
	}
	sponsor := codec.Address{1, 2, 3}
	vals := map[string][]byte{string(pvBalance.BalanceKey(sponsor)): binary.BigEndian.AppendUint64(nil, pvFunds)}
	fail := map[string]bool{}
	for k, rd := range parent {
		switch rd[0] {
		case 'v':
			vals[string(pvKey(k))] = []byte(rd[1:])
		case 'f':
			vals[string(pvKey(k))] = []byte("x")
			fail[string(pvKey(k))] = true
		}
	}
	type txd struct {
		keys  []string
		modes []byte
		fail  bool
	}
	var txds []txd
	var txs []*chain.Transaction
	declared := map[string]bool{string(pvBalance.BalanceKey(sponsor)): true}
	anyFail := false
	for n, tk := range f[i+1:] {
		p := strings.SplitN(tk, ":", 2)
		if len(p) != 2 {
			return "bad-op", nil
		}
		d := txd{fail: strings.HasSuffix(p[0], "!")}
		seen := map[string]bool{}
		if p[1] != "" {
			for _, k := range strings.Split(p[1], ",") {
				var m byte
				if q := strings.SplitN(k, "+", 2); len(q) == 2 {
					if len(q[1]) != 1 || !strings.ContainsRune("wrsd", rune(q[1][0])) {
						return "bad-op", nil
					}
					k, m = q[0], q[1][0]
				}
				if k == "" || seen[k] {
					return "bad-op", nil
				}
				seen[k] = true
				d.keys, d.modes = append(d.keys, k), append(d.modes, m)
				declared[string(pvKey(k))] = true
				if fail[string(pvKey(k))] {
					anyFail = true
				}
			}
		}
		txds = append(txds, d)
		a := chaintest.NewDummyTestAuth()
		a.SponsorAddress, a.ActorAddress = sponsor, sponsor
		tx, err := chain.NewTransaction(chain.Base{Timestamp: pvTxTime, ChainID: pvChainID, MaxFee: 1 << 40},
			[]chain.Action{&pvAction{Nonce: uint64(n), Keys: d.keys, Modes: d.modes, Fail: d.fail}}, a)
		if err != nil {
			t.Fatal(err)
		}
		txs = append(txs, tx)
	}
	if len(txs) == 0 {
		delete(declared, string(pvBalance.BalanceKey(sponsor)))
	}
	db, err := pvNewDB(vals)
	if err != nil {
		t.Fatal(err)
	}
	root, err := db.GetMerkleRoot(context.Background())
	if err != nil {
		t.Fatal(err)
	}
	view := &pvView{View: db, fail: fail}
	res := pvExecute(t, view, root, txs, chaintest.NewDummyTestAuthEngines(), 2, cores, conc)
	r.Count(fmt.Sprintf("pconc:%d", conc))
	if res.hang {
		viol("exec-hang", "Processor.Execute did not return within %s", pvExecTO)
		return "hang", vios
	}
	// ---- reads of the parent state
	meta := map[string]bool{
		string(chain.HeightKey(pvMeta.HeightPrefix())):       true,
		string(chain.TimestampKey(pvMeta.TimestampPrefix())): true,
		string(chain.FeeKey(pvMeta.FeePrefix())):             true,
	}
	view.mu.Lock()
	log := append([]string{}, view.log...)
	view.mu.Unlock()
	count := map[string]int{}
	for _, k := range log {
		count[k]++
		if !declared[k] && !meta[k] {
			viol("read-undeclared-key", "key %x was read from the parent state; it is neither declared nor a chain metadata key", k)
		}
		if count[k] == 2 {
			viol("read-twice", "key %x was read from the parent state more than once", k)
		}
	}
	if res.err != nil {
		if !anyFail {
			viol("exec-spurious-error", "Execute failed without an injected read error: %v", res.err)
		}
		r.Distinct("err/" + strings.Join(f[1:3], "/") + "/" + strconv.Itoa(len(txs)))
		return "err", vios
	}
	if anyFail {
		viol("read-error-ignored", "the parent read of a declared key fails but Execute succeeded")
	}
	for k := range declared {
		if count[k] == 0 {
			viol("declared-key-not-read", "declared key %x was never read from the parent state", k)
		}
	}
	for k := range meta {
		if count[k] == 0 {
			viol("declared-key-not-read", "chain metadata key %x was never read from the parent state", k)
		}
	}
	// ---- what every tx observed
	type cur struct {
		present bool
		val     string
	}
	last := map[string]cur{} // key -> content after the earlier txs of the block that changed it
	for n, d := range txds {
		rs := res.out.ExecutionResults.Results[n]
		if d.fail {
			// a reverted transaction changes nothing (and reports no output)
			if rs.Success {
				viol("tx-failed", "tx %d should have been reverted by its failing action", n)
			}
			continue
		}
		if !rs.Success || len(rs.Outputs) != 1 {
			viol("tx-failed", "tx %d did not execute: %s", n, rs.Error)
			continue
		}
		pres, got, ok := pvParseOutput(rs.Outputs[0], len(d.keys))
		if !ok {
			viol("tx-failed", "tx %d: malformed output", n)
			continue
		}
		for j, k := range d.keys {
			wantP, wantV := false, ""
			if w, okw := last[k]; okw {
				wantP, wantV = w.present, w.val
			} else if rd, okp := parent[k]; okp && rd[0] == 'v' {
				wantP, wantV = true, rd[1:]
			}
			if pres[j] != wantP || got[j] != wantV {
				viol("tx-observes-wrong-value", "tx %d key %s: observed present=%v %q, expected present=%v %q", n, k, pres[j], got[j], wantP, wantV)
			}
		}
		for j, k := range d.keys {
			switch d.modes[j] {
			case 'w':
				last[k] = cur{true, "w" + strconv.Itoa(n)}
			case 'd':
				last[k] = cur{false, ""}
			}
		}
	}
	r.Distinct("ok/" + strings.Join(f[1:3], "/") + "/" + strconv.Itoa(len(txs)) + "/" + strconv.Itoa(len(declared)))
	return "ok", vios
}

func pv24Generate(r *verifh.Run) []string {
	out := []string{
		"exec conc=1 cores=1 P T",
		"exec conc=2 cores=2 P ka=v kb=a kc=vx T 0:ka,kb,kc 1:ka,kc",
		"exec conc=1 cores=1 P ka=v1 kb=v2 T 0:ka+w,kb 1:ka,kb+w 2:ka,kb",
		"exec conc=3 cores=2 P ka=v1 kb=f T 0:ka 1:kb 2:ka",
		"exec conc=1 cores=4 P ka=f T 0:ka+w 1:ka",
		// an earlier tx declares a key writable but leaves it unchanged: only reads it, is rolled back,
		// rewrites the identical value; a later tx must still see the parent's value
		"exec conc=2 cores=2 P ka=v1 kb=v2 kc=v T 0:ka+r 1:ka,kb 2!:kb+w 3:kb 4:kc+s,ka+s 5:kc,ka",
		"exec conc=1 cores=1 P ka=v7 T 0:ka+r 1:ka+r 2:ka",
		"exec conc=3 cores=3 P ka=v7 kb=a T 0!:ka+w,kb+w 1:ka,kb 2:ka+d 3:ka 4:ka+w 5!:ka+d 6:ka",
		"exec conc=2 cores=1 P ka=v" + strings.Repeat("y", 63) + " kb=v" + strings.Repeat("z", 64) + " T 0:ka 1:kb 2:ka,kb",
	}
	names := []string{"ka", "kb", "kc", "kd", "ke", "kf", "kg", "kh", "ki", "kj"}
	for i := 0; i < r.N(500, 12000); i++ {
		conc, cores := 1+r.RNG.Intn(16), 1+r.RNG.Intn(4)
		if r.RNG.Chance(30) {
			conc = 1 + r.RNG.Intn(2)
		}
		nk := 1 + r.RNG.Intn(len(names))
		line := fmt.Sprintf("exec conc=%d cores=%d P", conc, cores)
		failAt := -1
		if r.RNG.Chance(30) {
			failAt = r.RNG.Intn(nk)
		}
		for j := 0; j < nk; j++ {
			switch {
			case j == failAt:
				line += " " + names[j] + "=f"
			case r.RNG.Chance(25):
				line += " " + names[j] + "=a"
			case r.RNG.Chance(10):
			default:
				n := []int{0, 1, 2, 5, 63}[r.RNG.Intn(5)]
				line += " " + names[j] + "=v" + strings.Repeat(string(rune('a'+r.RNG.Intn(26))), n)
			}
		}
		line += " T"
		ntx := r.RNG.Intn(14)
		for n := 0; n < ntx; n++ {
			perm := r.RNG.Intn(1 << uint(nk))
			var ks []string
			for j := 0; j < nk && len(ks) < 5; j++ {
				if perm&(1<<uint(j)) != 0 && r.RNG.Chance(60) {
					k := names[j]
					if r.RNG.Chance(45) {
						k += "+" + string("wwwrrssd"[r.RNG.Intn(8)])
					}
					ks = append(ks, k)
				}
			}
			bang := ""
			if r.RNG.Chance(12) {
				bang = "!"
			}
			line += fmt.Sprintf(" %d%s:%s", n, bang, strings.Join(ks, ","))
		}
		out = append(out, line)
	}
	return out
}

// ================================================================= C16 at block level
//
//   exec w=<signature workers> <item>*     item = e|s|b + 1 valid | 0 corrupted signature | 2 other message signed
//     -> ok | sigfail | err | hang
// real ed25519 / secp256r1 / BLS transactions, auth.DefaultEngines(), Processor.Execute.

type pvSigner struct {
	factories map[byte][]chain.AuthFactory
	cache     map[string]*chain.Transaction
	dPos      []*bls.Signature // G2 elements d_j
	dNeg      []*bls.Signature // -d_j
	secpNeg   chain.AuthFactory // secp256r1 key n-d of the first secp256r1 key d: same X, opposite parity
}

// The 14 encodings of the 8 small-order points of edwards25519 (8 canonical, 6 non-canonical:
// y >= p and/or "negative zero" x), as in the ZIP-215 test vectors.
var pvSmallOrder = []string{
	"0100000000000000000000000000000000000000000000000000000000000000",
	"ecffffffffffffffffffffffffffffffffffffffffffffffffffffffffffff7f",
	"0000000000000000000000000000000000000000000000000000000000000000",
	"0000000000000000000000000000000000000000000000000000000000000080",
	"26e8958fc2b227b045c3f489f2ef98f0d5dfac05d3c63339b13802886d53fc05",
	"26e8958fc2b227b045c3f489f2ef98f0d5dfac05d3c63339b13802886d53fc85",
	"c7176a703d4dd84fba3c0b760d10670f2a2053fa2c39ccc64ec7fd7792ac037a",
	"c7176a703d4dd84fba3c0b760d10670f2a2053fa2c39ccc64ec7fd7792ac03fa",
	"0100000000000000000000000000000000000000000000000000000000000080",
	"eeffffffffffffffffffffffffffffffffffffffffffffffffffffffffffff7f",
	"eeffffffffffffffffffffffffffffffffffffffffffffffffffffffffffffff",
	"ecffffffffffffffffffffffffffffffffffffffffffffffffffffffffffffff",
	"edffffffffffffffffffffffffffffffffffffffffffffffffffffffffffff7f",
	"edffffffffffffffffffffffffffffffffffffffffffffffffffffffffffffff",
}

var pvBLSOrder, _ = new(big.Int).SetString("73eda753299d7d483339d80809a1d80553bda402fffe5bfeffffffff00000001", 16)

func pvNewSigner(t *testing.T) *pvSigner {
	s := &pvSigner{factories: map[byte][]chain.AuthFactory{}, cache: map[string]*chain.Transaction{}}
	for i := 0; i < 3; i++ {
		ep, err1 := ed25519.GeneratePrivateKey()
		sp, err2 := secp256r1.GeneratePrivateKey()
		bp, err3 := bls.GeneratePrivateKey()
		dk, err4 := bls.GeneratePrivateKey()
		if err := errors.Join(err1, err2, err3, err4); err != nil {
			t.Fatal(err)
		}
		s.factories['e'] = append(s.factories['e'], auth.NewED25519Factory(ep))
		s.factories['s'] = append(s.factories['s'], auth.NewSECP256R1Factory(sp))
		if i == 0 {
			nb := make([]byte, secp256r1.PrivateKeyLen)
			new(big.Int).Sub(elliptic.P256().Params().N, new(big.Int).SetBytes(sp[:])).FillBytes(nb)
			s.secpNeg = auth.NewSECP256R1Factory(secp256r1.PrivateKey(nb))
		}
		s.factories['b'] = append(s.factories['b'], auth.NewBLSFactory(bp))
		// d = dk*H(m) and -d = (r-dk)*H(m): a pair of opposite G2 elements
		neg := make([]byte, 32)
		new(big.Int).Sub(pvBLSOrder, new(big.Int).SetBytes(bls.PrivateKeyToBytes(dk))).FillBytes(neg)
		ndk, err := bls.PrivateKeyFromBytes(neg)
		if err != nil {
			t.Fatal(err)
		}
		d, err5 := bls.Sign([]byte("offset"), dk)
		nd, err6 := bls.Sign([]byte("offset"), ndk)
		if err := errors.Join(err5, err6); err != nil {
			t.Fatal(err)
		}
		s.dPos, s.dNeg = append(s.dPos, d), append(s.dNeg, nd)
	}
	return s
}

func (s *pvSigner) addresses() []codec.Address {
	var as []codec.Address
	for _, fs := range s.factories {
		for _, f := range fs {
			as = append(as, f.Address())
		}
	}
	as = append(as, s.secpNeg.Address())
	if a0, err := s.factories['s'][0].Sign([]byte{0}); err == nil {
		bad := a0.(*auth.SECP256R1).Signer
		bad[0] = 0x05
		as = append(as, auth.NewSECP256R1Address(bad))
	}
	for _, h := range pvSmallOrder {
		var pk ed25519.PublicKey
		copy(pk[:], verifh.MustUnHex(h))
		as = append(as, auth.NewED25519Address(pk))
	}
	return as
}

// pvItemOK: item tokens. <t><k> with t = e|s|b and k = 1 valid | 0 corrupted signature | 2 other message signed;
// e3[.<i>.<j>]: ed25519 with small-order signer encoding i, R encoding j (default 0.0), s = 0 — valid for
// every message under ZIP-215; e4: the same with s = 1 — invalid; b5 / b6: BLS signature plus / minus a G2
// element d (the k-th b5 and the k-th b6 of a block use the same d) — each invalid on its own;
// secp256r1 same-X family on the first secp256r1 key d (an `s1` at a position divisible by 3 uses d):
// s7 names the opposite-parity key (prefix 02<->03) but is signed by d — invalid; s8 is signed by n-d and
// names n-d's key (same X, other parity) — valid; s9 names prefix 05 (malformed) — invalid.
func pvItemOK(tok string) bool {
	if strings.HasPrefix(tok, "e3.") {
		p := strings.Split(tok, ".")
		if len(p) != 3 {
			return false
		}
		for _, x := range p[1:] {
			n, err := strconv.Atoi(x)
			if err != nil || n < 0 || n >= len(pvSmallOrder) || strconv.Itoa(n) != x {
				return false
			}
		}
		return true
	}
	if len(tok) != 2 || !strings.ContainsRune("esb", rune(tok[0])) {
		return false
	}
	switch tok[1] {
	case '0', '1', '2':
		return true
	case '3', '4':
		return tok[0] == 'e'
	case '5', '6':
		return tok[0] == 'b'
	case '7', '8', '9':
		return tok[0] == 's'
	}
	return false
}

// pvItemValid: does the item verify one-by-one (what the Lean model is told)
func pvItemValid(tok string) bool { return tok[1] == '1' || tok[1] == '3' || tok[1] == '8' }

// pvRefVerify is the reference one-by-one verification. For secp256r1 it does not go through the
// repository's crypto/secp256r1.Verify (which may keep state between calls) but straight to the
// standard library: the signature must verify under exactly the named compressed public key.
func pvRefVerify(tx *chain.Transaction) bool {
	if a, ok := tx.Auth.(*auth.SECP256R1); ok {
		x, y := elliptic.UnmarshalCompressed(elliptic.P256(), a.Signer[:])
		if x == nil || y == nil {
			return false
		}
		digest := sha256.Sum256(tx.UnsignedBytes())
		r, sv := new(big.Int).SetBytes(a.Signature[:32]), new(big.Int).SetBytes(a.Signature[32:])
		half := new(big.Int).Rsh(elliptic.P256().Params().N, 1)
		if sv.Cmp(half) > 0 { // the repository only accepts normalized (low) s
			return false
		}
		return ecdsa.Verify(&ecdsa.PublicKey{Curve: elliptic.P256(), X: x, Y: y}, digest[:], r, sv)
	}
	return tx.Auth.Verify(context.Background(), tx.UnsignedBytes()) == nil
}

// pvPairs: for every item its ordinal among the items of the same kind (selects d for b5/b6)
func pvPairs(toks []string) []int {
	cnt := map[string]int{}
	out := make([]int, len(toks))
	for i, t := range toks {
		out[i] = cnt[t[:2]]
		cnt[t[:2]]++
	}
	return out
}

func (s *pvSigner) item(tok string, pos, pair int) *chain.Transaction {
	key := fmt.Sprintf("%s/%d/%d", tok, pos, pair%len(s.dPos))
	if tx, ok := s.cache[key]; ok {
		return tx
	}
	ty, kind := tok[0], tok[1]
	fs := s.factories[ty]
	f := fs[pos%len(fs)]
	base := chain.Base{Timestamp: pvTxTime, ChainID: pvChainID, MaxFee: 1 << 40}
	actions := []chain.Action{&pvAction{Nonce: uint64(pos)}}
	td := chain.NewTxData(base, actions)
	var a chain.Auth
	var err error
	switch kind {
	case '1':
		a, err = f.Sign(td.UnsignedBytes())
	case '2':
		a, err = f.Sign(append(append([]byte{}, td.UnsignedBytes()...), 0x01))
	case '3', '4':
		ai, ri := 0, 0
		if p := strings.Split(tok, "."); len(p) == 3 {
			ai, _ = strconv.Atoi(p[1])
			ri, _ = strconv.Atoi(p[2])
		}
		e := &auth.ED25519{}
		copy(e.Signer[:], verifh.MustUnHex(pvSmallOrder[ai]))
		copy(e.Signature[:32], verifh.MustUnHex(pvSmallOrder[ri]))
		if kind == '4' {
			e.Signature[32] = 1
		}
		a = e
	case '7', '9':
		a, err = s.factories['s'][0].Sign(td.UnsignedBytes())
		if err == nil {
			v := a.(*auth.SECP256R1)
			if kind == '9' {
				v.Signer[0] = 0x05
			} else {
				v.Signer[0] ^= 0x01 // 02 <-> 03
			}
		}
	case '8':
		a, err = s.secpNeg.Sign(td.UnsignedBytes())
	case '5', '6':
		a, err = f.Sign(td.UnsignedBytes())
		if err == nil {
			d := s.dPos[pair%len(s.dPos)]
			if kind == '6' {
				d = s.dNeg[pair%len(s.dNeg)]
			}
			v := a.(*auth.BLS)
			v.Signature, err = bls.AggregateSignatures([]*bls.Signature{v.Signature, d})
		}
	default:
		a, err = f.Sign(td.UnsignedBytes())
		if err == nil {
			switch v := a.(type) {
			case *auth.ED25519:
				v.Signature[7] ^= 0x40
			case *auth.SECP256R1:
				v.Signature[9] ^= 0x40
			case *auth.BLS:
				var b chain.Auth
				b, err = fs[(pos+1)%len(fs)].Sign(td.UnsignedBytes())
				if err == nil {
					v.Signature = b.(*auth.BLS).Signature
				}
			}
		}
	}
	if err != nil {
		panic(err)
	}
	tx, err := chain.NewTransaction(base, actions, a)
	if err != nil {
		panic(err)
	}
	s.cache[key] = tx
	return tx
}

type pv16Env struct {
	signer *pvSigner
	db     merkledb.MerkleDB
	root   ids.ID
}

func newPV16Env(t *testing.T) *pv16Env {
	signer := pvNewSigner(t)
	vals := map[string][]byte{}
	for _, a := range signer.addresses() {
		vals[string(pvBalance.BalanceKey(a))] = binary.BigEndian.AppendUint64(nil, pvFunds)
	}
	db, err := pvNewDB(vals)
	if err != nil {
		t.Fatal(err)
	}
	root, err := db.GetMerkleRoot(context.Background())
	if err != nil {
		t.Fatal(err)
	}
	return &pv16Env{signer: signer, db: db, root: root}
}

// exec handles one `exec w=<n> <item>*` line (emits it and applies the oracle).
func (e *pv16Env) exec(t *testing.T, r *verifh.Run, l string, f []string) {
	ok := len(f) >= 2 && f[0] == "exec" && strings.HasPrefix(f[1], "w=")
	w := 0
	if ok {
		var err error
		w, err = strconv.Atoi(f[1][2:])
		ok = err == nil && w >= 1 && w <= 64
		for _, it := range f[2:] {
			if !pvItemOK(it) {
				ok = false
			}
		}
	}
	if !ok {
		r.Emit(l, "bad-op")
		return
	}
	pairs := pvPairs(f[2:])
	txs := make([]*chain.Transaction, 0, len(f)-2)
	want := true
	var broken []string
	for i, it := range f[2:] {
		tx := e.signer.item(it, i, pairs[i])
		txs = append(txs, tx)
		// oracle: one-by-one Auth.Verify over the tx's unsigned bytes
		verr := tx.Auth.Verify(context.Background(), tx.UnsignedBytes())
		if !pvRefVerify(tx) {
			want = false
		}
		if pvItemValid(it) != (verr == nil) {
			broken = append(broken, fmt.Sprintf("item %d (%s): one-by-one verification says %v", i, it, verr))
		}
	}
	res := pvExecute(t, e.db, e.root, txs, auth.DefaultEngines(), w, 1+w%3, 1+w%4)
	var out string
	switch {
	case res.hang:
		out = "hang"
	case res.err == nil:
		out = "ok"
	case errors.Is(res.err, crypto.ErrInvalidSignature) || strings.Contains(res.err.Error(), "signatures failed verification"):
		out = "sigfail"
	default:
		out = "err"
	}
	r.Emit(l, out)
	for _, b := range broken {
		r.Violation("test-vector-broken", "%s", b)
	}
	r.Count(fmt.Sprintf("pworkers:%d", w))
	switch {
	case out == "hang":
		r.Violation("exec-hang", "Processor.Execute did not return within %s (%s)", pvExecTO, l)
	case out == "err":
		r.Violation("exec-other-error", "Execute failed with an error that is not a signature failure: %v (%s)", res.err, l)
	case (out == "ok") != want:
		r.Violation("batch-ne-individual", "Chain.Execute says %s but one-by-one Auth.Verify over the unsigned bytes says all-valid=%v (%s)", out, want, l)
	}
	if !want || len(txs)%4 == 0 {
		r.Distinct(strings.Join(f[1:], " "))
	}
}

// TestVerifC16P runs only the Processor.Execute part (the C16 check runs it inside TestVerifC16).
func TestVerifC16P(t *testing.T) {
	r := verifh.Start("C16")
	defer r.Finish()
	lines := r.ReplayLines()
	if lines == nil {
		lines = pv16Generate(r)
	}
	env := newPV16Env(t)
	for _, l := range lines {
		env.exec(t, r, l, verifh.Fields(l))
	}
}

func pv16Generate(r *verifh.Run) []string {
	out := []string{"exec w=1", "exec w=2 e1", "exec w=2 s0", "exec w=3 b2 e1", "exec w=2 e1 e1 e1 e1 e0", "exec w=2 e0 e1 e1 e1 e1 e1 e1 e1 s1"}
	rep := func(tok string, n int) []string {
		s := make([]string, n)
		for i := range s {
			s[i] = tok
		}
		return s
	}
	line := func(w int, items []string) string {
		return strings.TrimSpace(fmt.Sprintf("exec w=%d %s", w, strings.Join(items, " ")))
	}
	for _, w := range []int{1, 2, 3, 4, 8, 16} {
		for _, n := range []int{4, 5, 8, 9, 4*w + 1, 8 * w, 8*w + 3} {
			if n > 70 {
				continue
			}
			bs := n / w
			if bs < 4 {
				bs = 4
			}
			out = append(out, line(w, rep("e1", n)))
			for _, p := range []int{0, bs - 1, bs, n - 1} {
				if p >= 0 && p < n {
					it := rep("e1", n)
					it[p] = "e0"
					out = append(out, line(w, it))
				}
			}
		}
	}
	for i := 0; i < r.N(150, 5000); i++ {
		w := 1 + r.RNG.Intn(16)
		n := r.RNG.Intn(30)
		items := make([]string, n)
		for j := range items {
			items[j] = string("eeeessb"[r.RNG.Intn(7)]) + "1"
		}
		ninv := r.RNG.Intn(4)
		if r.RNG.Chance(40) {
			ninv = 0
		}
		for q := 0; q < ninv && n > 0; q++ {
			p := r.RNG.Intn(n)
			items[p] = items[p][:1] + string("02"[r.RNG.Intn(2)])
		}
		out = append(out, line(w, items))
	}
	// secp256r1 same-X / opposite-parity family, inside one block and across consecutive blocks
	out = append(out, line(1, []string{"s1", "s7"}), line(1, []string{"s1", "s8", "e1"}), line(1, []string{"s1"}),
		line(1, []string{"s7"}), line(1, []string{"s8"}), line(2, []string{"s9"}), line(1, []string{"s8", "s1"}), line(1, []string{"s1", "s9"}))
	// ZIP-215 edge vectors and BLS offset pairs through Chain.Execute
	for a := 0; a < len(pvSmallOrder); a++ {
		out = append(out, line(1+a%4, []string{"e1", fmt.Sprintf("e3.%d.%d", a, (a*3+10)%len(pvSmallOrder)), "e1", "e1", "s1"}))
	}
	for i := 0; i < r.N(20, 600); i++ {
		n := 1 + r.RNG.Intn(9)
		it := rep("e1", n)
		it[r.RNG.Intn(n)] = fmt.Sprintf("e3.%d.%d", r.RNG.Intn(len(pvSmallOrder)), r.RNG.Intn(len(pvSmallOrder)))
		out = append(out, line(1+r.RNG.Intn(8), it))
	}
	for _, w := range []int{1, 2, 4} {
		for _, n := range []int{2, 5, 8} {
			it := rep("b1", n)
			it[0], it[n-1] = "b5", "b6"
			out = append(out, line(w, it))
			it = rep("b1", n)
			it[n/2-1+n%2], it[n/2+n%2] = "b6", "b5"
			out = append(out, line(w, it))
		}
	}
	sort.SliceStable(out, func(i, j int) bool { return false })
	return out
}
