package chain_test

// Processor-level ties of C16 (TestVerifC16P) and C24 (TestVerifC24P): real blocks through
// chain.NewProcessor(...).Execute — the `observe_at` point of both properties.
// Overlaid into /repo/chain at build time; never committed to /repo.

import (
	"context"
	"encoding/binary"
	"errors"
	"fmt"
	"sort"
	"strconv"
	"strings"
	"sync"
	"testing"
	"time"

	"github.com/ava-labs/avalanchego/database/memdb"
	"github.com/ava-labs/avalanchego/ids"
	"github.com/ava-labs/avalanchego/snow/engine/snowman/block"
	"github.com/ava-labs/avalanchego/trace"
	"github.com/ava-labs/avalanchego/utils/logging"
	"github.com/ava-labs/avalanchego/x/merkledb"
	"github.com/prometheus/client_golang/prometheus"

	"github.com/ava-labs/hypersdk/auth"
	"github.com/ava-labs/hypersdk/chain"
	"github.com/ava-labs/hypersdk/chain/chaintest"
	"github.com/ava-labs/hypersdk/codec"
	"github.com/ava-labs/hypersdk/crypto"
	"github.com/ava-labs/hypersdk/crypto/bls"
	"github.com/ava-labs/hypersdk/crypto/ed25519"
	"github.com/ava-labs/hypersdk/crypto/secp256r1"
	"github.com/ava-labs/hypersdk/fees"
	"github.com/ava-labs/hypersdk/genesis"
	"github.com/ava-labs/hypersdk/internal/validitywindow/validitywindowtest"
	"github.com/ava-labs/hypersdk/internal/verifh"
	"github.com/ava-labs/hypersdk/internal/workers"
	"github.com/ava-labs/hypersdk/state"
	"github.com/ava-labs/hypersdk/state/balance"
	"github.com/ava-labs/hypersdk/state/metadata"
)

const (
	pvBlockTime = int64(1000)
	pvTxTime    = int64(2000)
	pvActionID  = 0x51
	pvFunds     = uint64(1) << 50
	pvExecTO    = 20 * time.Second
)

var (
	pvBalance = balance.NewPrefixBalanceHandler([]byte{metadata.DefaultMinimumPrefix})
	pvMeta    = metadata.NewDefaultManager()
	pvChainID = ids.ID{0xC1, 0x6}
)

// pvKey: action key name -> state key (prefix 0x10, 1 chunk)
func pvKey(name string) []byte {
	return append(append([]byte{0x10}, name...), 0, 1)
}

// pvAction reads every declared key (the output lists what it saw), then writes the keys marked
// for writing with the value "w<nonce>".
type pvAction struct {
	Nonce  uint64
	Keys   []string
	Writes []bool
}

func (*pvAction) GetTypeID() uint8                      { return pvActionID }
func (*pvAction) ValidRange(chain.Rules) (int64, int64) { return -1, -1 }
func (*pvAction) ComputeUnits(chain.Rules) uint64       { return 1 }

func (a *pvAction) Bytes() []byte {
	b := []byte{pvActionID}
	b = binary.BigEndian.AppendUint64(b, a.Nonce)
	for i, k := range a.Keys {
		b = append(b, byte(len(k)))
		b = append(b, k...)
		if a.Writes[i] {
			b = append(b, 1)
		} else {
			b = append(b, 0)
		}
	}
	return b
}

func (a *pvAction) StateKeys(codec.Address, ids.ID) state.Keys {
	ks := state.Keys{}
	for i, k := range a.Keys {
		p := state.Read
		if a.Writes[i] {
			p = state.All
		}
		ks[string(pvKey(k))] |= p
	}
	return ks
}

func (a *pvAction) Execute(ctx context.Context, _ chain.Rules, mu state.Mutable, _ int64, _ codec.Address, _ ids.ID) ([]byte, error) {
	out := []byte{}
	for _, k := range a.Keys {
		v, err := mu.GetValue(ctx, pvKey(k))
		switch {
		case err == nil:
			out = append(out, 1, byte(len(v)))
			out = append(out, v...)
		case strings.Contains(err.Error(), "not found"):
			out = append(out, 0)
		default:
			return nil, err
		}
	}
	for i, k := range a.Keys {
		if a.Writes[i] {
			if err := mu.Insert(ctx, pvKey(k), []byte("w"+strconv.FormatUint(a.Nonce, 10))); err != nil {
				return nil, err
			}
		}
	}
	return out, nil
}

// pvParseOutput -> per declared key: (present, value)
func pvParseOutput(out []byte, n int) ([]bool, []string, bool) {
	pres, vals := make([]bool, 0, n), make([]string, 0, n)
	p := 0
	for i := 0; i < n; i++ {
		if p >= len(out) {
			return nil, nil, false
		}
		if out[p] == 0 {
			pres, vals = append(pres, false), append(vals, "")
			p++
			continue
		}
		if p+2 > len(out) || p+2+int(out[p+1]) > len(out) {
			return nil, nil, false
		}
		pres, vals = append(pres, true), append(vals, string(out[p+2:p+2+int(out[p+1])]))
		p += 2 + int(out[p+1])
	}
	return pres, vals, p == len(out)
}

var errPVInjected = errors.New("injected parent read error")

// pvView records every read of the parent state and can fail chosen keys.
type pvView struct {
	merkledb.View
	mu   sync.Mutex
	log  []string
	fail map[string]bool
}

func (v *pvView) GetValue(ctx context.Context, key []byte) ([]byte, error) {
	v.mu.Lock()
	v.log = append(v.log, string(key))
	f := v.fail[string(key)]
	v.mu.Unlock()
	if f {
		return nil, errPVInjected
	}
	return v.View.GetValue(ctx, key)
}

func pvRules() *genesis.Rules {
	r := genesis.NewDefaultRules()
	r.ChainID = pvChainID
	r.MaxBlockUnits = fees.Dimensions{1 << 40, 1 << 40, 1 << 40, 1 << 40, 1 << 40}
	return r
}

func pvNewDB(vals map[string][]byte) (merkledb.MerkleDB, error) {
	db, err := merkledb.New(context.Background(), memdb.New(), merkledb.Config{BranchFactor: merkledb.BranchFactor16, Tracer: trace.Noop})
	if err != nil {
		return nil, err
	}
	hk, tk, fk := chain.HeightKey(pvMeta.HeightPrefix()), chain.TimestampKey(pvMeta.TimestampPrefix()), chain.FeeKey(pvMeta.FeePrefix())
	if err := errors.Join(db.Put(hk, binary.BigEndian.AppendUint64(nil, 0)), db.Put(tk, binary.BigEndian.AppendUint64(nil, 0)), db.Put(fk, []byte{})); err != nil {
		return nil, err
	}
	for k, v := range vals {
		if err := db.Put([]byte(k), v); err != nil {
			return nil, err
		}
	}
	return db, nil
}

type pvExecResult struct {
	out  *chain.OutputBlock
	err  error
	hang bool
}

// pvExecute builds the block on top of `parent` and runs Processor.Execute with a hang detector.
func pvExecute(t *testing.T, parent merkledb.View, root ids.ID, txs []*chain.Transaction, engines chain.AuthEngines, sigWorkers, cores, fetchConc int) pvExecResult {
	metrics, err := chain.NewMetrics(prometheus.NewRegistry())
	if err != nil {
		t.Fatal(err)
	}
	cfg := chain.NewDefaultConfig()
	cfg.TransactionExecutionCores = cores
	cfg.StateFetchConcurrency = fetchConc
	pool := workers.NewParallel(sigWorkers, 4)
	proc := chain.NewProcessor(trace.Noop, &logging.NoLog{}, &genesis.ImmutableRuleFactory{Rules: pvRules()}, pool,
		engines, pvMeta, pvBalance, &validitywindowtest.MockTimeValidityWindow[*chain.Transaction]{}, metrics, cfg)
	blk, err := chain.NewStatelessBlock(ids.Empty, pvBlockTime, 1, txs, root, &block.Context{})
	if err != nil {
		t.Fatal(err)
	}
	ch := make(chan pvExecResult, 1)
	go func() {
		out, err := proc.Execute(context.Background(), parent, chain.NewExecutionBlock(blk), true)
		ch <- pvExecResult{out: out, err: err}
	}()
	select {
	case r := <-ch:
		go pool.Stop()
		return r
	case <-time.After(pvExecTO):
		return pvExecResult{hang: true}
	}
}

// ================================================================= C24 at block level
//
//   exec conc=<fetch concurrency> cores=<execution cores> P <key>=<rd>* T <tx>:<key>[+w],..*
//     rd: v<value> (any length incl. 0) | a (absent) | f (the parent read of that key fails)
//     -> ok | err | hang
// Oracle: parent reads ⊆ declared keys ∪ sponsor balance keys ∪ {height, timestamp, fee}, each
// at most once, all of them when the block executes; every tx sees, for each declared key, the
// value written by the latest earlier tx of the block that wrote it, else the parent's value or
// absence; an injected read error fails Execute (never hangs, never reads as absence).

func TestVerifC24P(t *testing.T) {
	r := verifh.Start("C24")
	defer r.Finish()
	lines := r.ReplayLines()
	if lines == nil {
		lines = pv24Generate(r)
	}
	for _, l := range lines {
		f := verifh.Fields(l)
		out, vios := pv24Exec(t, r, f)
		r.Emit(l, out)
		for _, v := range vios {
			r.Violation(v[0], "%s (%s)", v[1], l)
		}
	}
}

func pv24Exec(t *testing.T, r *verifh.Run, f []string) (string, [][2]string) {
	var vios [][2]string
	viol := func(key, format string, a ...any) { vios = append(vios, [2]string{key, fmt.Sprintf(format, a...)}) }
	if len(f) < 5 || f[0] != "exec" || !strings.HasPrefix(f[1], "conc=") || !strings.HasPrefix(f[2], "cores=") || f[3] != "P" {
		return "bad-op", nil
	}
	conc, e1 := strconv.Atoi(f[1][5:])
	cores, e2 := strconv.Atoi(f[2][6:])
	if e1 != nil || e2 != nil || conc < 1 || conc > 64 || cores < 1 || cores > 64 {
		return "bad-op", nil
	}
	parent := map[string]string{} // name -> rd
	i := 4
	for ; i < len(f) && f[i] != "T"; i++ {
		p := strings.SplitN(f[i], "=", 2)
		if len(p) != 2 || p[1] == "" || !strings.ContainsRune("vaf", rune(p[1][0])) {
			return "bad-op", nil
		}
		parent[p[0]] = p[1]
	}
	if i >= len(f) {
		return "bad-op", nil
	}
	sponsor := codec.Address{1, 2, 3}
	vals := map[string][]byte{string(pvBalance.BalanceKey(sponsor)): binary.BigEndian.AppendUint64(nil, pvFunds)}
	fail := map[string]bool{}
	for k, rd := range parent {
		switch rd[0] {
		case 'v':
			vals[string(pvKey(k))] = []byte(rd[1:])
		case 'f':
			vals[string(pvKey(k))] = []byte("x")
			fail[string(pvKey(k))] = true
		}
	}
	type txd struct {
		keys   []string
		writes []bool
	}
	var txds []txd
	var txs []*chain.Transaction
	declared := map[string]bool{string(pvBalance.BalanceKey(sponsor)): true}
	anyFail := false
	for n, tk := range f[i+1:] {
		p := strings.SplitN(tk, ":", 2)
		if len(p) != 2 {
			return "bad-op", nil
		}
		d := txd{}
		seen := map[string]bool{}
		if p[1] != "" {
			for _, k := range strings.Split(p[1], ",") {
				w := strings.HasSuffix(k, "+w")
				k = strings.TrimSuffix(k, "+w")
				if k == "" || seen[k] {
					return "bad-op", nil
				}
				seen[k] = true
				d.keys, d.writes = append(d.keys, k), append(d.writes, w)
				declared[string(pvKey(k))] = true
				if fail[string(pvKey(k))] {
					anyFail = true
				}
			}
		}
		txds = append(txds, d)
		a := chaintest.NewDummyTestAuth()
		a.SponsorAddress, a.ActorAddress = sponsor, sponsor
		tx, err := chain.NewTransaction(chain.Base{Timestamp: pvTxTime, ChainID: pvChainID, MaxFee: 1 << 40},
			[]chain.Action{&pvAction{Nonce: uint64(n), Keys: d.keys, Writes: d.writes}}, a)
		if err != nil {
			t.Fatal(err)
		}
		txs = append(txs, tx)
	}
	if len(txs) == 0 {
		delete(declared, string(pvBalance.BalanceKey(sponsor)))
	}
	db, err := pvNewDB(vals)
	if err != nil {
		t.Fatal(err)
	}
	root, err := db.GetMerkleRoot(context.Background())
	if err != nil {
		t.Fatal(err)
	}
	view := &pvView{View: db, fail: fail}
	res := pvExecute(t, view, root, txs, chaintest.NewDummyTestAuthEngines(), 2, cores, conc)
	r.Count(fmt.Sprintf("pconc:%d", conc))
	if res.hang {
		viol("exec-hang", "Processor.Execute did not return within %s", pvExecTO)
		return "hang", vios
	}
	// ---- reads of the parent state
	meta := map[string]bool{
		string(chain.HeightKey(pvMeta.HeightPrefix())):       true,
		string(chain.TimestampKey(pvMeta.TimestampPrefix())): true,
		string(chain.FeeKey(pvMeta.FeePrefix())):             true,
	}
	view.mu.Lock()
	log := append([]string{}, view.log...)
	view.mu.Unlock()
	count := map[string]int{}
	for _, k := range log {
		count[k]++
		if !declared[k] && !meta[k] {
			viol("read-undeclared-key", "key %x was read from the parent state; it is neither declared nor a chain metadata key", k)
		}
		if count[k] == 2 {
			viol("read-twice", "key %x was read from the parent state more than once", k)
		}
	}
	if res.err != nil {
		if !anyFail {
			viol("exec-spurious-error", "Execute failed without an injected read error: %v", res.err)
		}
		r.Distinct("err/" + strings.Join(f[1:3], "/") + "/" + strconv.Itoa(len(txs)))
		return "err", vios
	}
	if anyFail {
		viol("read-error-ignored", "the parent read of a declared key fails but Execute succeeded")
	}
	for k := range declared {
		if count[k] == 0 {
			viol("declared-key-not-read", "declared key %x was never read from the parent state", k)
		}
	}
	for k := range meta {
		if count[k] == 0 {
			viol("declared-key-not-read", "chain metadata key %x was never read from the parent state", k)
		}
	}
	// ---- what every tx observed
	last := map[string]string{} // key -> value written earlier in the block
	for n, d := range txds {
		rs := res.out.ExecutionResults.Results[n]
		if !rs.Success || len(rs.Outputs) != 1 {
			viol("tx-failed", "tx %d did not execute: %s", n, rs.Error)
			continue
		}
		pres, got, ok := pvParseOutput(rs.Outputs[0], len(d.keys))
		if !ok {
			viol("tx-failed", "tx %d: malformed output", n)
			continue
		}
		for j, k := range d.keys {
			wantP, wantV := false, ""
			if w, okw := last[k]; okw {
				wantP, wantV = true, w
			} else if rd, okp := parent[k]; okp && rd[0] == 'v' {
				wantP, wantV = true, rd[1:]
			}
			if pres[j] != wantP || got[j] != wantV {
				viol("tx-observes-wrong-value", "tx %d key %s: observed present=%v %q, expected present=%v %q", n, k, pres[j], got[j], wantP, wantV)
			}
		}
		for j, k := range d.keys {
			if d.writes[j] {
				last[k] = "w" + strconv.Itoa(n)
			}
		}
	}
	r.Distinct("ok/" + strings.Join(f[1:3], "/") + "/" + strconv.Itoa(len(txs)) + "/" + strconv.Itoa(len(declared)))
	return "ok", vios
}

func pv24Generate(r *verifh.Run) []string {
	out := []string{
		"exec conc=1 cores=1 P T",
		"exec conc=2 cores=2 P ka=v kb=a kc=vx T 0:ka,kb,kc 1:ka,kc",
		"exec conc=1 cores=1 P ka=v1 kb=v2 T 0:ka+w,kb 1:ka,kb+w 2:ka,kb",
		"exec conc=3 cores=2 P ka=v1 kb=f T 0:ka 1:kb 2:ka",
		"exec conc=1 cores=4 P ka=f T 0:ka+w 1:ka",
		"exec conc=2 cores=1 P ka=v" + strings.Repeat("y", 63) + " kb=v" + strings.Repeat("z", 64) + " T 0:ka 1:kb 2:ka,kb",
	}
	names := []string{"ka", "kb", "kc", "kd", "ke", "kf", "kg", "kh", "ki", "kj"}
	for i := 0; i < r.N(500, 12000); i++ {
		conc, cores := 1+r.RNG.Intn(16), 1+r.RNG.Intn(4)
		if r.RNG.Chance(30) {
			conc = 1 + r.RNG.Intn(2)
		}
		nk := 1 + r.RNG.Intn(len(names))
		line := fmt.Sprintf("exec conc=%d cores=%d P", conc, cores)
		failAt := -1
		if r.RNG.Chance(30) {
			failAt = r.RNG.Intn(nk)
		}
		for j := 0; j < nk; j++ {
			switch {
			case j == failAt:
				line += " " + names[j] + "=f"
			case r.RNG.Chance(25):
				line += " " + names[j] + "=a"
			case r.RNG.Chance(10):
			default:
				n := []int{0, 1, 2, 5, 63}[r.RNG.Intn(5)]
				line += " " + names[j] + "=v" + strings.Repeat(string(rune('a'+r.RNG.Intn(26))), n)
			}
		}
		line += " T"
		ntx := r.RNG.Intn(14)
		for n := 0; n < ntx; n++ {
			perm := r.RNG.Intn(1 << uint(nk))
			var ks []string
			for j := 0; j < nk && len(ks) < 5; j++ {
				if perm&(1<<uint(j)) != 0 && r.RNG.Chance(60) {
					k := names[j]
					if r.RNG.Chance(30) {
						k += "+w"
					}
					ks = append(ks, k)
				}
			}
			line += fmt.Sprintf(" %d:%s", n, strings.Join(ks, ","))
		}
		out = append(out, line)
	}
	return out
}

// ================================================================= C16 at block level
//
//   exec w=<signature workers> <item>*     item = e|s|b + 1 valid | 0 corrupted signature | 2 other message signed
//     -> ok | sigfail | err | hang
// real ed25519 / secp256r1 / BLS transactions, auth.DefaultEngines(), Processor.Execute.

type pvSigner struct {
	factories map[byte][]chain.AuthFactory
	cache     map[string]*chain.Transaction
}

func pvNewSigner(t *testing.T) *pvSigner {
	s := &pvSigner{factories: map[byte][]chain.AuthFactory{}, cache: map[string]*chain.Transaction{}}
	for i := 0; i < 3; i++ {
		ep, err1 := ed25519.GeneratePrivateKey()
		sp, err2 := secp256r1.GeneratePrivateKey()
		bp, err3 := bls.GeneratePrivateKey()
		if err := errors.Join(err1, err2, err3); err != nil {
			t.Fatal(err)
		}
		s.factories['e'] = append(s.factories['e'], auth.NewED25519Factory(ep))
		s.factories['s'] = append(s.factories['s'], auth.NewSECP256R1Factory(sp))
		s.factories['b'] = append(s.factories['b'], auth.NewBLSFactory(bp))
	}
	return s
}

func (s *pvSigner) addresses() []codec.Address {
	var as []codec.Address
	for _, fs := range s.factories {
		for _, f := range fs {
			as = append(as, f.Address())
		}
	}
	return as
}

func (s *pvSigner) tx(ty byte, pos int, kind byte) *chain.Transaction {
	key := fmt.Sprintf("%c/%d/%c", ty, pos, kind)
	if tx, ok := s.cache[key]; ok {
		return tx
	}
	fs := s.factories[ty]
	f := fs[pos%len(fs)]
	base := chain.Base{Timestamp: pvTxTime, ChainID: pvChainID, MaxFee: 1 << 40}
	actions := []chain.Action{&pvAction{Nonce: uint64(pos)}}
	td := chain.NewTxData(base, actions)
	var a chain.Auth
	var err error
	switch kind {
	case '1':
		a, err = f.Sign(td.UnsignedBytes())
	case '2':
		a, err = f.Sign(append(append([]byte{}, td.UnsignedBytes()...), 0x01))
	default:
		a, err = f.Sign(td.UnsignedBytes())
		if err == nil {
			switch v := a.(type) {
			case *auth.ED25519:
				v.Signature[7] ^= 0x40
			case *auth.SECP256R1:
				v.Signature[9] ^= 0x40
			case *auth.BLS:
				var b chain.Auth
				b, err = fs[(pos+1)%len(fs)].Sign(td.UnsignedBytes())
				if err == nil {
					v.Signature = b.(*auth.BLS).Signature
				}
			}
		}
	}
	if err != nil {
		panic(err)
	}
	tx, err := chain.NewTransaction(base, actions, a)
	if err != nil {
		panic(err)
	}
	s.cache[key] = tx
	return tx
}

type pv16Env struct {
	signer *pvSigner
	db     merkledb.MerkleDB
	root   ids.ID
}

func newPV16Env(t *testing.T) *pv16Env {
	signer := pvNewSigner(t)
	vals := map[string][]byte{}
	for _, a := range signer.addresses() {
		vals[string(pvBalance.BalanceKey(a))] = binary.BigEndian.AppendUint64(nil, pvFunds)
	}
	db, err := pvNewDB(vals)
	if err != nil {
		t.Fatal(err)
	}
	root, err := db.GetMerkleRoot(context.Background())
	if err != nil {
		t.Fatal(err)
	}
	return &pv16Env{signer: signer, db: db, root: root}
}

// exec handles one `exec w=<n> <item>*` line (emits it and applies the oracle).
func (e *pv16Env) exec(t *testing.T, r *verifh.Run, l string, f []string) {
	ok := len(f) >= 2 && f[0] == "exec" && strings.HasPrefix(f[1], "w=")
	w := 0
	if ok {
		var err error
		w, err = strconv.Atoi(f[1][2:])
		ok = err == nil && w >= 1 && w <= 64
		for _, it := range f[2:] {
			if len(it) != 2 || !strings.ContainsRune("esb", rune(it[0])) || !strings.ContainsRune("012", rune(it[1])) {
				ok = false
			}
		}
	}
	if !ok {
		r.Emit(l, "bad-op")
		return
	}
	txs := make([]*chain.Transaction, 0, len(f)-2)
	want := true
	var broken []string
	for i, it := range f[2:] {
		tx := e.signer.tx(it[0], i, it[1])
		txs = append(txs, tx)
		// oracle: one-by-one Auth.Verify over the tx's unsigned bytes
		verr := tx.Auth.Verify(context.Background(), tx.UnsignedBytes())
		if verr != nil {
			want = false
		}
		if (it[1] == '1') != (verr == nil) {
			broken = append(broken, fmt.Sprintf("item %d (%s): one-by-one verification says %v", i, it, verr))
		}
	}
	res := pvExecute(t, e.db, e.root, txs, auth.DefaultEngines(), w, 1+w%3, 1+w%4)
	var out string
	switch {
	case res.hang:
		out = "hang"
	case res.err == nil:
		out = "ok"
	case errors.Is(res.err, crypto.ErrInvalidSignature) || strings.Contains(res.err.Error(), "signatures failed verification"):
		out = "sigfail"
	default:
		out = "err"
	}
	r.Emit(l, out)
	for _, b := range broken {
		r.Violation("test-vector-broken", "%s", b)
	}
	r.Count(fmt.Sprintf("pworkers:%d", w))
	switch {
	case out == "hang":
		r.Violation("exec-hang", "Processor.Execute did not return within %s (%s)", pvExecTO, l)
	case out == "err":
		r.Violation("exec-other-error", "Execute failed with an error that is not a signature failure: %v (%s)", res.err, l)
	case (out == "ok") != want:
		r.Violation("batch-ne-individual", "Chain.Execute says %s but one-by-one Auth.Verify over the unsigned bytes says all-valid=%v (%s)", out, want, l)
	}
	if !want || len(txs)%4 == 0 {
		r.Distinct(strings.Join(f[1:], " "))
	}
}

// TestVerifC16P runs only the Processor.Execute part (the C16 check runs it inside TestVerifC16).
func TestVerifC16P(t *testing.T) {
	r := verifh.Start("C16")
	defer r.Finish()
	lines := r.ReplayLines()
	if lines == nil {
		lines = pv16Generate(r)
	}
	env := newPV16Env(t)
	for _, l := range lines {
		env.exec(t, r, l, verifh.Fields(l))
	}
}

func pv16Generate(r *verifh.Run) []string {
	out := []string{"exec w=1", "exec w=2 e1", "exec w=2 s0", "exec w=3 b2 e1", "exec w=2 e1 e1 e1 e1 e0", "exec w=2 e0 e1 e1 e1 e1 e1 e1 e1 s1"}
	rep := func(tok string, n int) []string {
		s := make([]string, n)
		for i := range s {
			s[i] = tok
		}
		return s
	}
	line := func(w int, items []string) string {
		return strings.TrimSpace(fmt.Sprintf("exec w=%d %s", w, strings.Join(items, " ")))
	}
	for _, w := range []int{1, 2, 3, 4, 8, 16} {
		for _, n := range []int{4, 5, 8, 9, 4*w + 1, 8 * w, 8*w + 3} {
			if n > 70 {
				continue
			}
			bs := n / w
			if bs < 4 {
				bs = 4
			}
			out = append(out, line(w, rep("e1", n)))
			for _, p := range []int{0, bs - 1, bs, n - 1} {
				if p >= 0 && p < n {
					it := rep("e1", n)
					it[p] = "e0"
					out = append(out, line(w, it))
				}
			}
		}
	}
	for i := 0; i < r.N(150, 5000); i++ {
		w := 1 + r.RNG.Intn(16)
		n := r.RNG.Intn(30)
		items := make([]string, n)
		for j := range items {
			items[j] = string("eeeessb"[r.RNG.Intn(7)]) + "1"
		}
		ninv := r.RNG.Intn(4)
		if r.RNG.Chance(40) {
			ninv = 0
		}
		for q := 0; q < ninv && n > 0; q++ {
			p := r.RNG.Intn(n)
			items[p] = items[p][:1] + string("02"[r.RNG.Intn(2)])
		}
		out = append(out, line(w, items))
	}
	sort.SliceStable(out, func(i, j int) bool { return false })
	return out
}
