//go:build !race

package chain_test

const hRace = false
