package chain

import (
	"errors"
	"fmt"
	"math/big"
	"sort"
	"strconv"
	"strings"
	"testing"

	"github.com/ava-labs/avalanchego/ids"
	safemath "github.com/ava-labs/avalanchego/utils/math"

	"github.com/ava-labs/hypersdk/codec"
	"github.com/ava-labs/hypersdk/internal/verifh"
	"github.com/ava-labs/hypersdk/state"
)

// Minimal collaborators: only the methods Transaction.Units / StateKeys call are implemented
// (anything else would hit the nil embedded interface and panic, which the harness reports).
type c12Rules struct {
	Rules
	base, kr, vr, ka, va, kw, vw uint64
}

func (r *c12Rules) GetBaseComputeUnits() uint64          { return r.base }
func (r *c12Rules) GetStorageKeyReadUnits() uint64       { return r.kr }
func (r *c12Rules) GetStorageValueReadUnits() uint64     { return r.vr }
func (r *c12Rules) GetStorageKeyAllocateUnits() uint64   { return r.ka }
func (r *c12Rules) GetStorageValueAllocateUnits() uint64 { return r.va }
func (r *c12Rules) GetStorageKeyWriteUnits() uint64      { return r.kw }
func (r *c12Rules) GetStorageValueWriteUnits() uint64    { return r.vw }

type c12Action struct {
	Action
	cu   uint64
	keys state.Keys
}

func (a *c12Action) ComputeUnits(Rules) uint64                 { return a.cu }
func (a *c12Action) StateKeys(codec.Address, ids.ID) state.Keys { return a.keys }

type c12Auth struct {
	Auth
	cu uint64
}

func (a *c12Auth) ComputeUnits(Rules) uint64 { return a.cu }
func (*c12Auth) Actor() codec.Address        { return codec.Address{1} }
func (*c12Auth) Sponsor() codec.Address      { return codec.Address{2} }

type c12BH struct {
	BalanceHandler
	keys state.Keys
}

func (b *c12BH) SponsorStateKeys(codec.Address) state.Keys { return b.keys }

var c12Perms = []state.Permissions{state.Read, state.Allocate, state.Write, state.All, state.None}

// c12Prep is a parsed `units` line: the transaction, its collaborators and what the exact
// formula of the property says Units must return.
type c12Prep struct {
	tx      *Transaction
	bh      *c12BH
	rules   *c12Rules
	want    string
	nKeys   int
	nAct    int
	sponsor int
}

// c12Prepare parses the fields of a `units` line
// (units size base auth kr vr ka va kw vw nA (acu nk key*)* nS key*).
func c12Prepare(f []string) (*c12Prep, bool) {
	if len(f) < 12 || f[0] != "units" {
		return nil, false
	}
	two64 := new(big.Int).Lsh(big.NewInt(1), 64)
	nums := make([]uint64, 9)
	for i := range nums {
		v, err := strconv.ParseUint(f[1+i], 10, 64)
		if err != nil {
			return nil, false
		}
		nums[i] = v
	}
	size, base, authCU := nums[0], nums[1], nums[2]
	rules := &c12Rules{base: base, kr: nums[3], vr: nums[4], ka: nums[5], va: nums[6], kw: nums[7], vw: nums[8]}
	pos := 11
	takeKeys := func() ([][]byte, bool) {
		if pos >= len(f) {
			return nil, false
		}
		n, err := strconv.Atoi(f[pos])
		pos++
		if err != nil || n < 0 || pos+n > len(f) {
			return nil, false
		}
		out := make([][]byte, 0, n)
		for i := 0; i < n; i++ {
			b, err := verifh.UnHex(f[pos+i])
			if err != nil {
				return nil, false
			}
			out = append(out, b)
		}
		pos += n
		return out, true
	}
	nA, err := strconv.Atoi(f[10])
	if err != nil || nA < 0 || size > 1<<62 {
		return nil, false
	}
	var actions []Action
	var actionCUs []uint64
	allKeys := map[string]bool{}
	anyBad := false
	permIx := 0
	mkKeys := func(ks [][]byte) state.Keys {
		m := make(state.Keys, len(ks))
		for _, k := range ks {
			m[string(k)] |= c12Perms[permIx%len(c12Perms)]
			permIx++
			allKeys[string(k)] = true
			if len(k) < 2 {
				anyBad = true
			}
		}
		return m
	}
	for i := 0; i < nA; i++ {
		if pos >= len(f) {
			return nil, false
		}
		cu, err := strconv.ParseUint(f[pos], 10, 64)
		pos++
		if err != nil {
			return nil, false
		}
		ks, ok := takeKeys()
		if !ok {
			return nil, false
		}
		actions = append(actions, &c12Action{cu: cu, keys: mkKeys(ks)})
		actionCUs = append(actionCUs, cu)
	}
	sponsor, ok := takeKeys()
	if !ok || pos != len(f) {
		return nil, false
	}
	p := &c12Prep{bh: &c12BH{keys: mkKeys(sponsor)}, rules: rules, nKeys: len(allKeys), nAct: len(actions), sponsor: len(sponsor)}
	p.tx = &Transaction{TransactionData: TransactionData{Actions: actions}, Auth: &c12Auth{cu: authCU}, size: int(size)}

	// the statement of the property in exact arithmetic
	compute := new(big.Int).SetUint64(base)
	for _, cu := range actionCUs {
		compute.Add(compute, new(big.Int).SetUint64(cu))
	}
	compute.Add(compute, new(big.Int).SetUint64(authCU))
	var reads, allocs, writes big.Int
	names := make([]string, 0, len(allKeys))
	for k := range allKeys {
		names = append(names, k)
	}
	sort.Strings(names)
	for _, k := range names {
		if len(k) < 2 {
			continue
		}
		chunks := new(big.Int).SetUint64(uint64(k[len(k)-2])<<8 | uint64(k[len(k)-1]))
		add := func(acc *big.Int, kc, vc uint64) {
			acc.Add(acc, new(big.Int).SetUint64(kc))
			acc.Add(acc, new(big.Int).Mul(chunks, new(big.Int).SetUint64(vc)))
		}
		add(&reads, rules.kr, rules.vr)
		add(&allocs, rules.ka, rules.va)
		add(&writes, rules.kw, rules.vw)
	}
	switch {
	case compute.Cmp(two64) >= 0:
		p.want = "overflow"
	case anyBad:
		p.want = "badkey"
	case reads.Cmp(two64) >= 0 || allocs.Cmp(two64) >= 0 || writes.Cmp(two64) >= 0:
		p.want = "overflow"
	default:
		p.want = fmt.Sprintf("ok %d,%s,%s,%s,%s", size, compute, &reads, &allocs, &writes)
	}
	return p, true
}

func c12Eval(tx *Transaction, bh BalanceHandler, rules Rules) string {
	got, uerr := tx.Units(bh, rules)
	switch {
	case uerr == nil:
		return "ok " + fmt.Sprintf("%d,%d,%d,%d,%d", got[0], got[1], got[2], got[3], got[4])
	case errors.Is(uerr, safemath.ErrOverflow):
		return "overflow"
	case errors.Is(uerr, ErrInvalidKeyValue):
		return "badkey"
	default:
		return "err:" + uerr.Error()
	}
}

// c12Split turns `units2 size auth A×7 B×7 rest…` into the two equivalent `units` field lists.
func c12Split(f []string) (a, b []string, ok bool) {
	if len(f) < 19 || f[0] != "units2" {
		return nil, nil, false
	}
	mk := func(rs []string) []string {
		out := []string{"units", f[1], rs[0], f[2]}
		out = append(out, rs[1:7]...)
		return append(out, f[17:]...)
	}
	return mk(f[3:10]), mk(f[10:17]), true
}

// C12 (first half): Transaction.Units = size, base+actions+auth compute, and per distinct
// declared key read/allocate/write key cost + chunks*value cost; overflow is an error; the
// result depends on the rules passed to *this* call only (`units2`: one transaction object
// metered under two rule sets, as across a rule upgrade).
func TestVerifC12(t *testing.T) {
	r := verifh.Start("C12")
	defer r.Finish()
	r.RNG = verifh.NewRNG(c12Mix(r.Seed))

	lines := r.ReplayLines()
	if lines == nil {
		lines = c12Generate(r)
	}

	for _, l := range lines {
		f := verifh.Fields(l)
		if len(f) > 0 && f[0] == "units2" {
			fa, fb, ok := c12Split(f)
			var pa, pb *c12Prep
			if ok {
				pa, ok = c12Prepare(fa)
			}
			if ok {
				pb, ok = c12Prepare(fb)
			}
			if !ok {
				r.Emit(l, "bad-op")
				continue
			}
			// the SAME transaction object, first under rules A, then under rules B
			outA := c12Eval(pa.tx, pa.bh, pa.rules)
			outB := c12Eval(pa.tx, pa.bh, pb.rules)
			r.Emit(l, outA+" | "+outB)
			r.Count("units2")
			if pa.want != pb.want {
				r.Distinct(l)
				r.Count("units2:rules-matter")
			}
			if outA != pa.want {
				r.Violation("units-ne-formula", "Units = %s, exact formula gives %s (first call): %s", outA, pa.want, l)
			}
			if outB != pb.want {
				key := "units-ne-formula"
				if fresh := c12Eval(pb.tx, pb.bh, pb.rules); fresh == pb.want {
					key = "units-depend-on-earlier-call"
				}
				r.Violation(key, "second Units call on the same transaction under other rules = %s, exact formula for those rules gives %s: %s", outB, pb.want, l)
			}
			continue
		}
		p, ok := c12Prepare(f)
		if !ok {
			r.Emit(l, "bad-op")
			continue
		}
		out := c12Eval(p.tx, p.bh, p.rules)
		r.Emit(l, out)
		r.Count(fmt.Sprintf("actions:%d", p.nAct))
		r.Count(fmt.Sprintf("keys:%d", p.nKeys))
		if p.want == "overflow" || (p.nKeys > 0 && (p.nAct > 1 || p.sponsor > 0)) {
			r.Distinct(l)
		}
		r.Count("want:" + strings.Fields(p.want)[0])
		if out != p.want {
			key := "units-ne-formula"
			if p.want == "overflow" || out == "overflow" {
				key = "units-overflow-handling"
			}
			r.Violation(key, "Units = %s, exact formula gives %s: %s", out, p.want, l)
		}
	}
}

func c12Key(rng *verifh.RNG, pool [][]byte) []byte {
	if len(pool) > 0 && rng.Intn(3) == 0 {
		return pool[rng.Intn(len(pool))]
	}
	switch rng.Intn(12) {
	case 0: // malformed: too short for the chunk suffix
		return rng.Bytes(rng.Intn(2))
	case 1: // suffix extremes
		return append(rng.Bytes(rng.Intn(3)), 0xff, 0xff)
	case 2:
		return []byte{0, 0}
	case 3:
		return append(rng.Bytes(1+rng.Intn(2)), 0, 0)
	default:
		k := rng.Bytes(1 + rng.Intn(4))
		return append(k, byte(rng.Intn(2)), byte(rng.Intn(256)))
	}
}

func c12Cost(rng *verifh.RNG, mode int) uint64 {
	switch mode {
	case 0:
		return uint64(rng.Intn(50))
	case 1:
		return rng.Pick64()
	case 2: // near the overflow edge when multiplied by up to 65535 chunks / a few keys
		return (^uint64(0))/uint64(1+rng.Intn(70000)) + uint64(rng.Intn(3)) - 1
	default:
		return uint64(rng.Intn(100000))
	}
}

func c12Generate(r *verifh.Run) []string {
	rng := r.RNG
	m := ^uint64(0)
	lines := []string{
		// corpus: plain case; compute overflow; MulAdd product overflow; sum overflow by one; bad key
		"units 100 1 2 5 2 20 5 10 10 2 3 2 00010002 aabb0003 4 1 00010002 1 cc0001",
		fmt.Sprintf("units 1 %d 1 0 0 0 0 0 0 1 0 0 0", m),
		fmt.Sprintf("units 1 %d 0 0 0 0 0 0 0 1 1 0 0", m),
		fmt.Sprintf("units 1 0 0 0 %d 0 0 0 0 1 0 1 aa0002 0", m),
		fmt.Sprintf("units 1 0 0 %d 0 0 0 0 0 1 0 1 aa0000 1 bb0000", m),
		fmt.Sprintf("units 1 0 0 %d 0 0 0 0 0 1 0 1 aa0000 1 aa0000", m),
		fmt.Sprintf("units 1 0 0 1 %d 0 0 0 0 1 0 1 aa0001 0", m-1),
		fmt.Sprintf("units 1 0 0 1 %d 0 0 0 0 1 0 1 aa0001 0", m),
		"units 7 1 1 1 1 1 1 1 1 1 0 1 aa 0",
		fmt.Sprintf("units 7 %d 1 1 1 1 1 1 1 1 0 1 aa 0", m),
		"units 0 0 0 0 0 0 0 0 0 0 0",
		"units2 100 2 1 5 2 20 5 10 10 1 50 2 20 5 10 10 1 3 1 aa0001 0",
		"units2 100 2 1 5 2 20 5 10 10 3 5 9 21 6 11 4 2 3 2 00010002 aabb0003 4 1 00010002 1 cc0001",
	}
	n := r.N(9000, 250000)
	for it := 0; it < n; it++ {
		mode := rng.Intn(5)
		var sb strings.Builder
		size := uint64(rng.Intn(1 << 20))
		cuMode := 0
		if rng.Intn(5) == 0 {
			cuMode = 1 + rng.Intn(2)
		}
		fmt.Fprintf(&sb, "units %d %d %d", size, c12Cost(rng, cuMode), c12Cost(rng, cuMode))
		for i := 0; i < 6; i++ {
			md := mode
			if mode == 4 { // only one cost large
				md = 0
				if rng.Intn(6) == 0 {
					md = 1 + rng.Intn(2)
				}
			}
			fmt.Fprintf(&sb, " %d", c12Cost(rng, md))
		}
		nA := rng.Intn(5)
		fmt.Fprintf(&sb, " %d", nA)
		var pool [][]byte
		for a := 0; a < nA; a++ {
			nk := rng.Intn(5)
			// keys of one action are a Go map: distinct
			seen := map[string]bool{}
			var ks [][]byte
			for i := 0; i < nk; i++ {
				k := c12Key(rng, pool)
				if rng.Intn(12) != 0 && len(k) < 2 {
					k = append(k, 0, 1)
				}
				if seen[string(k)] {
					continue
				}
				seen[string(k)] = true
				ks = append(ks, k)
				pool = append(pool, k)
			}
			fmt.Fprintf(&sb, " %d %d", c12Cost(rng, cuMode), len(ks))
			for _, k := range ks {
				sb.WriteByte(' ')
				sb.WriteString(verifh.Hex(k))
			}
		}
		nS := rng.Intn(3)
		seen := map[string]bool{}
		var ks [][]byte
		for i := 0; i < nS; i++ {
			k := c12Key(rng, pool)
			if rng.Intn(12) != 0 && len(k) < 2 {
				k = append(k, 0, 2)
			}
			if seen[string(k)] {
				continue
			}
			seen[string(k)] = true
			ks = append(ks, k)
		}
		fmt.Fprintf(&sb, " %d", len(ks))
		for _, k := range ks {
			sb.WriteByte(' ')
			sb.WriteString(verifh.Hex(k))
		}
		line := sb.String()
		lines = append(lines, line)
		if it%5 == 0 {
			// the same transaction metered again under a second rule set (a rule upgrade)
			f := strings.Fields(line)
			var sb2 strings.Builder
			fmt.Fprintf(&sb2, "units2 %s %s %s %s", f[1], f[3], f[2], strings.Join(f[4:10], " "))
			md := rng.Intn(4)
			fmt.Fprintf(&sb2, " %d", c12Cost(rng, 0))
			for i := 0; i < 6; i++ {
				c := c12Cost(rng, md)
				if rng.Intn(3) == 0 {
					c = verifh.U(f[4+i]) // this cost unchanged by the upgrade
				}
				fmt.Fprintf(&sb2, " %d", c)
			}
			fmt.Fprintf(&sb2, " %s", strings.Join(f[10:], " "))
			lines = append(lines, sb2.String())
		}
	}
	return lines
}

// c12Mix decorrelates seeds: verifh.NewRNG(k+1) is NewRNG(k)'s stream shifted by one draw, and
// generators with a varying number of draws per op re-align after a few ops.
func c12Mix(seed uint64) uint64 {
	z := seed + 0x9E3779B97F4A7C15
	z = (z ^ (z >> 30)) * 0xBF58476D1CE4E5B9
	z = (z ^ (z >> 27)) * 0x94D049BB133111EB
	return z ^ (z >> 31)
}
