package chain_test

import (
	"context"
	"fmt"
	"testing"
	"time"

	"github.com/ava-labs/avalanchego/ids"
	"github.com/ava-labs/avalanchego/snow/engine/snowman/block"
	"github.com/ava-labs/avalanchego/trace"
	"github.com/ava-labs/avalanchego/utils/logging"
	"github.com/prometheus/client_golang/prometheus"

	"github.com/ava-labs/hypersdk/chain"
	"github.com/ava-labs/hypersdk/fees"
	"github.com/ava-labs/hypersdk/genesis"
	"github.com/ava-labs/hypersdk/internal/validitywindow/validitywindowtest"
	"github.com/ava-labs/hypersdk/internal/verifh"
	"github.com/ava-labs/hypersdk/internal/workers"
)

// C10, in-block call site: the same `pre` op lines as the PreExecute tie, but executed through the
// real Processor.Execute (processor.go passes b.Tmstmp and GetRules(b.Tmstmp) to tx.PreExecute):
// a one-tx block at height 1 with timestamp <ts> over a parent state with the same timestamp.

type c10xAction struct {
	*scriptAction
	s, e int64
}

func (a *c10xAction) ValidRange(chain.Rules) (int64, int64) { return a.s, a.e }

type c10xAuth struct {
	*hAuth
	s, e int64
}

func (a *c10xAuth) ValidRange(chain.Rules) (int64, int64) { return a.s, a.e }

func TestVerifC10Exec(t *testing.T) {
	r := verifh.Start("C10")
	defer r.Finish()
	ctx := context.Background()
	lines := r.ReplayLines()
	if lines == nil {
		const T, W = int64(1_700_000_000_000), int64(60_000)
		add := func(c c10Case) { lines = append(lines, "pre "+c.args()) }
		base := c10Case{expiry: T, ts: T, window: W, txChain: 1, ruleChain: 1, maxActions: 2, authS: -1, authE: -1, acts: [][2]int64{{-1, -1}}}
		for _, e := range []int64{T - 1000, T, T + 1, T + 1000, T + W - 1000, T + W, T + W + 1000, T + W + 1} { // expiry clause boundaries
			c := base
			c.expiry = e
			add(c)
		}
		c := base
		c.txChain = 2 // chain id
		add(c)
		for n := 0; n <= 3; n++ { // action count around max = 2
			c := base
			c.acts = nil
			for i := 0; i < n; i++ {
				c.acts = append(c.acts, [2]int64{-1, -1})
			}
			add(c)
		}
		for _, rg := range [][2]int64{{T - 1, -1}, {T, -1}, {T + 1, -1}, {-1, T - 1}, {-1, T}, {-1, T + 1}, {T, T}, {0, 0}} { // activation ranges at ts
			c := base
			c.acts = [][2]int64{rg}
			add(c)
			c = base
			c.authS, c.authE = rg[0], rg[1]
			add(c)
		}
		rng := r.RNG
		for i := 0; i < r.N(150, 3000); i++ { // random around the boundaries
			c := base
			c.window = []int64{0, 1000, 60_000}[rng.Intn(3)]
			c.expiry = T + []int64{-1000, 0, 1000, c.window, c.window + 1000, 500}[rng.Intn(6)]
			pick := func() int64 { return []int64{-1, -1, T - 1, T, T + 1}[rng.Intn(5)] }
			c.acts = nil
			for j := rng.Intn(4); j > 0; j-- {
				c.acts = append(c.acts, [2]int64{pick(), pick()})
			}
			c.authS, c.authE = pick(), pick()
			if rng.Chance(10) {
				c.txChain = 2
			}
			add(c)
		}
	}
	metrics, err := chain.NewMetrics(prometheus.NewRegistry())
	if err != nil {
		t.Fatal(err)
	}
	for _, l := range lines {
		f := verifh.Fields(l)
		c, ok := c10Case{}, false
		if len(f) > 1 && f[0] == "pre" {
			c, ok = c10Parse(f[1:])
		}
		if !ok || c.ts < 0 || c.ts > time.Now().UnixMilli() {
			r.Emit(l, "bad-op")
			continue
		}
		big := fees.Dimensions{1 << 40, 1 << 40, 1 << 40, 1 << 40, 1 << 40}
		rules := hRules(fees.Dimensions{1, 1, 1, 1, 1}, big, big)
		rules.ChainID = c10ChainID(c.ruleChain)
		rules.ValidityWindow = c.window
		rules.MaxActionsPerTx = uint8(c.maxActions)
		rules.MinBlockGap, rules.MinEmptyBlockGap = 0, 0
		var actions []chain.Action
		for i, a := range c.acts {
			actions = append(actions, &c10xAction{&scriptAction{Nonce: uint64(i), Compute: 1, Ops: []hOp{}}, a[0], a[1]})
		}
		if actions == nil {
			actions = []chain.Action{}
		}
		tx, err := chain.NewTransaction(chain.Base{Timestamp: c.expiry, ChainID: c10ChainID(c.txChain), MaxFee: ^uint64(0)}, actions,
			&c10xAuth{&hAuth{Idx: 1, Sponsor_: 0, Compute: 1}, c.authS, c.authE})
		if err != nil {
			r.Emit(l, "bad-op")
			continue
		}
		db, err := newParentDB(map[int]uint64{hNumActionKeys: 1 << 60}, 0, c.ts)
		if err != nil {
			t.Fatal(err)
		}
		root, _ := db.GetMerkleRoot(ctx)
		sb, err := chain.NewStatelessBlock(ids.Empty, c.ts, 1, []*chain.Transaction{tx}, root, &block.Context{})
		if err != nil {
			r.Emit(l, "bad-op")
			continue
		}
		wk := workers.NewSerial()
		p := chain.NewProcessor(trace.Noop, &logging.NoLog{}, &genesis.ImmutableRuleFactory{Rules: rules}, wk, hAuthEngines{}, hMeta, hBalance,
			&validitywindowtest.MockTimeValidityWindow[*chain.Transaction]{}, metrics,
			chain.Config{TargetBuildDuration: time.Hour, TransactionExecutionCores: 1, StateFetchConcurrency: 1, TargetTxsSize: 1 << 30})
		_, xerr := p.Execute(ctx, db, chain.NewExecutionBlock(sb), true)
		wk.Stop()
		got := c10Class(xerr)
		r.Emit(l, got)
		r.Distinct(l)
		clause, overflow := c.statement(c.ts)
		if overflow {
			continue
		}
		r.Count("clause:" + map[bool]string{true: "all-hold", false: clause}[clause == ""])
		if got == "ok" && clause != "" {
			r.Violation("c10-block-executed-despite-"+clause, "Processor.Execute executed a tx although clause %q fails: %s", clause, l)
		}
		if got != "ok" && clause == "" {
			r.Violation("c10-block-rejected-valid", "Processor.Execute returned %s although every clause holds: %s", fmt.Sprint(got), l)
		}
	}
}
