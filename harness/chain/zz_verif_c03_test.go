package chain_test

import (
	"testing"

	"github.com/ava-labs/hypersdk/internal/verifh"
	"github.com/ava-labs/hypersdk/internal/verifx"
	"github.com/ava-labs/hypersdk/state/balance"
)

// C03 with the generic prefix balance handler (state/balance). Generator, executor and
// oracle live in internal/verifx (harness/lib/verifx/c03.go).
func TestVerifC03(t *testing.T) {
	r := verifh.Start("C03")
	defer r.Finish()
	verifx.RunC03(r, balance.NewPrefixBalanceHandler([]byte{0}), "p00")
}
