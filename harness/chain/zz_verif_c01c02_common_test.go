package chain_test

// Shared harness code of C01 (parallel = sequential execution) and C02 (built blocks verify).
// Overlaid into /repo/chain at build time; never committed to /repo.

import (
	"bytes"
	"context"
	"encoding/binary"
	"errors"
	"fmt"
	"runtime"
	"sort"
	"strconv"
	"strings"
	"sync"

	"github.com/ava-labs/avalanchego/database"
	"github.com/ava-labs/avalanchego/database/memdb"
	"github.com/ava-labs/avalanchego/ids"
	"github.com/ava-labs/avalanchego/trace"
	"github.com/ava-labs/avalanchego/x/merkledb"

	"github.com/ava-labs/hypersdk/chain"
	"github.com/ava-labs/hypersdk/codec"
	"github.com/ava-labs/hypersdk/fees"
	"github.com/ava-labs/hypersdk/genesis"
	"github.com/ava-labs/hypersdk/internal/verifh"
	"github.com/ava-labs/hypersdk/state"
	"github.com/ava-labs/hypersdk/state/balance"
	"github.com/ava-labs/hypersdk/state/metadata"
	"github.com/ava-labs/hypersdk/state/tstate"
	"github.com/ava-labs/hypersdk/utils"

	internalfees "github.com/ava-labs/hypersdk/internal/fees"
)

// ---------------------------------------------------------------- key universe

const (
	hNumActionKeys = 8
	hNumSponsors   = 3
	hNumKeys       = hNumActionKeys + hNumSponsors
	hScriptTypeID  = 7
	hAuthTypeID    = 9
)

var (
	hBalance = balance.NewPrefixBalanceHandler([]byte{metadata.DefaultMinimumPrefix})
	hMeta    = metadata.NewDefaultManager()
	hChainID = ids.ID{0xC0, 0x1}
)

func hSponsorAddr(i int) codec.Address {
	var a codec.Address
	a[0] = 0x55
	a[1] = byte(i + 1)
	return a
}

// hKey maps a model key index to the real state key. Action keys share stems on purpose:
// same prefix / different chunk suffix, one key a strict extension of another.
func hKey(i int) []byte {
	switch {
	case i == 0:
		return []byte{0x10, 'a', 0, 1}
	case i == 1:
		return []byte{0x10, 'a', 0, 2} // same prefix as 0, other size suffix
	case i == 2:
		return []byte{0x10, 'a', 0, 1, 0, 1} // key 0 is a byte-prefix of this one
	case i == 3:
		return []byte{0x10, 'a', 'b', 0, 1}
	case i < hNumActionKeys:
		return []byte{0x10, 'b' + byte(i), 0, 1}
	default:
		return hBalance.BalanceKey(hSponsorAddr(i - hNumActionKeys))
	}
}

func hKeyIndex(k string) int {
	for i := 0; i < hNumKeys; i++ {
		if string(hKey(i)) == k {
			return i
		}
	}
	return -1
}

func hVal(v uint64) []byte { return binary.BigEndian.AppendUint64(nil, v) }

// ---------------------------------------------------------------- scripted action

type hOp struct {
	kind byte // 'g' get, 'p' put, 'd' del, 'f' fail, 'P' put of a value too large for the key's size suffix
	key  int
	val  uint64
	empty bool // 'p' of the empty byte string
}

var errScripted = errors.New("scripted failure")

// scriptAction performs its ops in order against the view. A get of an absent key is not an
// error (the absence is part of the output); a scope error fails the action.
type scriptAction struct {
	Nonce   uint64
	Compute uint64
	Keys    []int // declared keys (model indices)
	Perms   []state.Permissions
	Ops     []hOp
	Yield   bool // runtime.Gosched() between ops (schedule perturbation only)
}

func (*scriptAction) GetTypeID() uint8                       { return hScriptTypeID }
func (*scriptAction) ValidRange(chain.Rules) (int64, int64)  { return -1, -1 }
func (a *scriptAction) ComputeUnits(chain.Rules) uint64      { return a.Compute }

func (a *scriptAction) Bytes() []byte {
	b := []byte{hScriptTypeID}
	b = binary.BigEndian.AppendUint64(b, a.Nonce)
	b = binary.BigEndian.AppendUint64(b, a.Compute)
	b = append(b, byte(len(a.Keys)))
	for i, k := range a.Keys {
		b = append(b, byte(k), byte(a.Perms[i]))
	}
	y := byte(0)
	if a.Yield {
		y = 1
	}
	b = append(b, y)
	b = binary.BigEndian.AppendUint16(b, uint16(len(a.Ops)))
	for _, o := range a.Ops {
		k := byte(o.key)
		if o.empty {
			k |= 0x80
		}
		b = append(b, o.kind, k)
		b = binary.BigEndian.AppendUint64(b, o.val)
	}
	return b
}

func unmarshalScriptAction(b []byte) (chain.Action, error) {
	bad := errors.New("bad script action")
	if len(b) < 18 || b[0] != hScriptTypeID {
		return nil, bad
	}
	a := &scriptAction{Nonce: binary.BigEndian.Uint64(b[1:9]), Compute: binary.BigEndian.Uint64(b[9:17])}
	n := int(b[17])
	p := 18
	if len(b) < p+2*n+3 {
		return nil, bad
	}
	for i := 0; i < n; i++ {
		a.Keys = append(a.Keys, int(b[p]))
		a.Perms = append(a.Perms, state.Permissions(b[p+1]))
		p += 2
	}
	a.Yield = b[p] == 1
	m := int(binary.BigEndian.Uint16(b[p+1 : p+3]))
	p += 3
	if len(b) != p+10*m {
		return nil, bad
	}
	for i := 0; i < m; i++ {
		a.Ops = append(a.Ops, hOp{kind: b[p], key: int(b[p+1] & 0x7f), empty: b[p+1]&0x80 != 0, val: binary.BigEndian.Uint64(b[p+2 : p+10])})
		p += 10
	}
	return a, nil
}

func (a *scriptAction) StateKeys(codec.Address, ids.ID) state.Keys {
	ks := make(state.Keys, len(a.Keys))
	for i, k := range a.Keys {
		ks[string(hKey(k))] |= a.Perms[i]
	}
	return ks
}

// hEvents records, per tx (Nonce>>8), when its action bodies start and end; the C01 oracle checks
// that conflicting txs never overlap and run in block order.
var (
	hEventsMu sync.Mutex
	hEventsOn bool
	hEvents   []hEvent
)

type hEvent struct {
	seq   uint32
	start bool
}

func hEventsStart() {
	hEventsMu.Lock()
	hEventsOn, hEvents = true, nil
	hEventsMu.Unlock()
}

func hEventsStop() []hEvent {
	hEventsMu.Lock()
	defer hEventsMu.Unlock()
	hEventsOn = false
	return hEvents
}

func hLogEvent(seq uint32, start bool) {
	hEventsMu.Lock()
	if hEventsOn {
		hEvents = append(hEvents, hEvent{seq, start})
	}
	hEventsMu.Unlock()
}

func (a *scriptAction) Execute(ctx context.Context, _ chain.Rules, mu state.Mutable, _ int64, _ codec.Address, _ ids.ID) ([]byte, error) {
	hLogEvent(uint32(a.Nonce>>8), true)
	defer hLogEvent(uint32(a.Nonce>>8), false)
	out := []byte{}
	for _, o := range a.Ops {
		if a.Yield {
			runtime.Gosched()
		}
		switch o.kind {
		case 'g':
			v, err := mu.GetValue(ctx, hKey(o.key))
			switch {
			case errors.Is(err, database.ErrNotFound):
				out = append(out, 0)
			case err != nil:
				return nil, err
			default:
				out = append(out, 1, byte(len(v)))
				out = append(out, v...)
			}
		case 'p':
			v := hVal(o.val)
			if o.empty {
				v = []byte{}
			}
			if err := mu.Insert(ctx, hKey(o.key), v); err != nil {
				return nil, err
			}
		case 'd':
			if err := mu.Remove(ctx, hKey(o.key)); err != nil {
				return nil, err
			}
		case 'P':
			if err := mu.Insert(ctx, hKey(o.key), make([]byte, 200)); err != nil {
				return nil, err
			}
		case 'f':
			return nil, errScripted
		default:
			return nil, fmt.Errorf("bad op %c", o.kind)
		}
	}
	return out, nil
}

// showActionOutput renders an action output like the Lean driver (`showAct`).
func showActionOutput(out []byte) string {
	var parts []string
	for p := 0; p < len(out); {
		if out[p] == 0 {
			parts = append(parts, "_")
			p++
			continue
		}
		n := int(out[p+1])
		v := out[p+2 : p+2+n]
		if n == 0 {
			parts = append(parts, "E")
		} else if n == 8 {
			parts = append(parts, strconv.FormatUint(binary.BigEndian.Uint64(v), 10))
		} else {
			parts = append(parts, "x"+verifh.Hex(v))
		}
		p += 2 + n
	}
	if len(parts) == 0 {
		return "e"
	}
	return strings.Join(parts, ".")
}

// ---------------------------------------------------------------- auth with an observation hook

// hAuth is chaintest.TestAuth plus: a tx index (makes ids unique) and a hook in ValidRange,
// which PreExecute calls once per attempt — it lets C02 observe the order in which the
// builder's (single) worker processed transactions.
type hAuth struct {
	Idx     uint32
	Sponsor_ int
	Compute uint64
}

var (
	hAuthHookMu sync.Mutex
	hAuthHook   func(idx uint32)
)

func setAuthHook(f func(idx uint32)) {
	hAuthHookMu.Lock()
	hAuthHook = f
	hAuthHookMu.Unlock()
}

func (*hAuth) GetTypeID() uint8 { return hAuthTypeID }
func (a *hAuth) ValidRange(chain.Rules) (int64, int64) {
	hAuthHookMu.Lock()
	f := hAuthHook
	hAuthHookMu.Unlock()
	if f != nil {
		f(a.Idx)
	}
	return -1, -1
}

func (a *hAuth) Bytes() []byte {
	b := []byte{hAuthTypeID}
	b = binary.BigEndian.AppendUint32(b, a.Idx)
	b = append(b, byte(a.Sponsor_))
	return binary.BigEndian.AppendUint64(b, a.Compute)
}

func unmarshalHAuth(b []byte) (chain.Auth, error) {
	if len(b) != 14 || b[0] != hAuthTypeID {
		return nil, errors.New("bad hAuth")
	}
	return &hAuth{Idx: binary.BigEndian.Uint32(b[1:5]), Sponsor_: int(b[5]), Compute: binary.BigEndian.Uint64(b[6:14])}, nil
}
func (a *hAuth) ComputeUnits(chain.Rules) uint64          { return a.Compute }
func (*hAuth) Verify(context.Context, []byte) error       { return nil }
func (a *hAuth) Actor() codec.Address                     { return hSponsorAddr(a.Sponsor_) }
func (a *hAuth) Sponsor() codec.Address                   { return hSponsorAddr(a.Sponsor_) }

func hParser() *chain.TxTypeParser {
	ac := codec.NewTypeParser[chain.Action]()
	au := codec.NewTypeParser[chain.Auth]()
	if err := errors.Join(ac.Register(&scriptAction{}, unmarshalScriptAction), au.Register(&hAuth{}, unmarshalHAuth)); err != nil {
		panic(err)
	}
	return &chain.TxTypeParser{ActionRegistry: ac, AuthRegistry: au}
}

type hAuthEngines struct{}

func (hAuthEngines) GetAuthBatchVerifier(uint8, int, int) (chain.AuthBatchVerifier, bool) {
	return nil, false
}

// ---------------------------------------------------------------- tx lines

// hTxSpec is the parsed form of a `tx` / `mtx` line.
type hTxSpec struct {
	id      int
	sponsor int    // model key index of the sponsor's balance key
	pre     string // "1" valid; "0e" expired, "0f" too far in the future, "0c" wrong chain id, "0m" misaligned
	units   string // as printed for the model
	keys    string
	prog    string
}

func parseKeysField(s string) (ks []int, ps []state.Permissions, err error) {
	if s == "-" {
		return nil, nil, nil
	}
	for _, kv := range strings.Split(s, ",") {
		a := strings.Split(kv, ":")
		if len(a) != 2 {
			return nil, nil, errors.New("bad key field")
		}
		k, e1 := strconv.Atoi(a[0])
		p, e2 := strconv.Atoi(a[1])
		if e1 != nil || e2 != nil || k < 0 || k >= hNumKeys || p < 0 || p > 255 {
			return nil, nil, errors.New("bad key field")
		}
		ks = append(ks, k)
		ps = append(ps, state.Permissions(p))
	}
	return ks, ps, nil
}

func parseProgField(s string) ([][]hOp, error) {
	if s == "-" {
		return nil, nil
	}
	var acts [][]hOp
	for _, as := range strings.Split(s, "/") {
		ops := []hOp{}
		if as != "e" {
			for _, o := range strings.Split(as, ",") {
				if o == "" {
					return nil, errors.New("bad op")
				}
				switch o[0] {
				case 'f':
					if o != "f" {
						return nil, errors.New("bad op")
					}
					ops = append(ops, hOp{kind: 'f'})
				case 'g', 'd', 'P':
					k, err := strconv.Atoi(o[1:])
					if err != nil || k < 0 || k >= hNumKeys {
						return nil, errors.New("bad op")
					}
					ops = append(ops, hOp{kind: o[0], key: k})
				case 'p':
					a := strings.Split(o[1:], "=")
					if len(a) != 2 {
						return nil, errors.New("bad op")
					}
					k, e1 := strconv.Atoi(a[0])
					if e1 == nil && a[1] == "E" && k >= 0 && k < hNumActionKeys {
						ops = append(ops, hOp{kind: 'p', key: k, empty: true})
						continue
					}
					v, e2 := strconv.ParseUint(a[1], 10, 64)
					if e1 != nil || e2 != nil || k < 0 || k >= hNumKeys {
						return nil, errors.New("bad op")
					}
					ops = append(ops, hOp{kind: 'p', key: k, val: v})
				default:
					return nil, errors.New("bad op")
				}
			}
		}
		acts = append(acts, ops)
	}
	return acts, nil
}

// buildTx constructs the real transaction of a spec. The declared keys of the line are the
// *union* (as tx.StateKeys computes it, sponsor key included); they are attached to the first
// action — a tx without actions therefore must list only its sponsor key.
// blockTime is the timestamp of the block that will execute the tx.
func buildTx(sp hTxSpec, blockTime int64, validity int64, seq uint32, yield bool) (*chain.Transaction, error) {
	ks, ps, err := parseKeysField(sp.keys)
	if err != nil {
		return nil, err
	}
	acts, err := parseProgField(sp.prog)
	if err != nil {
		return nil, err
	}
	if sp.sponsor < hNumActionKeys || sp.sponsor >= hNumKeys {
		return nil, errors.New("bad sponsor")
	}
	// 30 s of margin on both sides: the builder samples its own time.Now() after the harness did
	valid := (blockTime/1000 + 30) * 1000
	base := chain.Base{Timestamp: valid, ChainID: hChainID, MaxFee: ^uint64(0)}
	switch sp.pre {
	case "1":
	case "0e":
		base.Timestamp = (blockTime/1000 - 30) * 1000
	case "0f":
		base.Timestamp = (blockTime/1000)*1000 + validity + 90000
	case "0c":
		base.ChainID = ids.ID{0xBA, 0xD}
	case "0m":
		base.Timestamp = valid + 1
	default:
		return nil, errors.New("bad pre")
	}
	var actions []chain.Action
	for i, ops := range acts {
		a := &scriptAction{Nonce: uint64(seq)<<8 | uint64(i), Compute: uint64(1 + (sp.id+i)%5), Ops: ops, Yield: yield}
		if i == 0 {
			for j, k := range ks {
				// the sponsor key's Read|Write comes from the balance handler; declare on the
				// action only what is beyond it, so that the union is exactly the line's value
				if k == sp.sponsor && ps[j] == state.Read|state.Write {
					continue
				}
				a.Keys = append(a.Keys, k)
				a.Perms = append(a.Perms, ps[j])
			}
		}
		actions = append(actions, a)
	}
	if actions == nil {
		actions = []chain.Action{}
	}
	return chain.NewTransaction(base, actions, &hAuth{Idx: seq, Sponsor_: sp.sponsor - hNumActionKeys, Compute: 1})
}

// declaredKeysLine renders tx.StateKeys as the model's `k:p,...` field (sorted by key index).
func declaredKeysLine(tx *chain.Transaction) string {
	sk, err := tx.StateKeys(hBalance)
	if err != nil {
		return "!"
	}
	type kp struct{ k, p int }
	var l []kp
	for k, p := range sk {
		l = append(l, kp{hKeyIndex(k), int(p)})
	}
	sort.Slice(l, func(i, j int) bool { return l[i].k < l[j].k })
	var parts []string
	for _, e := range l {
		parts = append(parts, fmt.Sprintf("%d:%d", e.k, e.p))
	}
	if len(parts) == 0 {
		return "-"
	}
	return strings.Join(parts, ",")
}

func dimsStr(d fees.Dimensions, sep string) string {
	parts := make([]string, len(d))
	for i, v := range d {
		parts[i] = strconv.FormatUint(v, 10)
	}
	return strings.Join(parts, sep)
}

func parseDims(s string) (fees.Dimensions, error) {
	var d fees.Dimensions
	a := strings.Split(s, ",")
	if len(a) != fees.FeeDimensions {
		return d, errors.New("bad dims")
	}
	for i := range a {
		v, err := strconv.ParseUint(a[i], 10, 64)
		if err != nil {
			return d, err
		}
		d[i] = v
	}
	return d, nil
}

// showResult renders a chain.Result like the Lean driver (`showResult`).
func showResult(id int, r *chain.Result) string {
	st := "ok"
	if !r.Success {
		switch {
		case bytes.Contains(r.Error, []byte(errScripted.Error())):
			st = "fs"
		case bytes.Contains(r.Error, []byte(tstate.ErrInvalidKeyOrPermission.Error())):
			st = "fp"
		case bytes.Contains(r.Error, []byte(tstate.ErrInvalidKeyValue.Error())):
			st = "fv"
		default:
			st = "f?" + string(r.Error)
		}
	}
	outs := "-"
	if len(r.Outputs) > 0 {
		parts := make([]string, len(r.Outputs))
		for i, o := range r.Outputs {
			parts[i] = showActionOutput(o)
		}
		outs = strings.Join(parts, "/")
	}
	return fmt.Sprintf("%d~%s~%d~%s~%s", id, st, r.Fee, dimsStr(r.Units, "."), outs)
}

func showResults(idOf func(i int) int, rs []*chain.Result) string {
	if len(rs) == 0 {
		return "none"
	}
	parts := make([]string, len(rs))
	for i, r := range rs {
		if r == nil {
			parts[i] = "nil"
			continue
		}
		parts[i] = showResult(idOf(i), r)
	}
	return strings.Join(parts, "|")
}

// ---------------------------------------------------------------- parent state

func hMetaKeys() (h, t, f []byte) {
	return chain.HeightKey(hMeta.HeightPrefix()), chain.TimestampKey(hMeta.TimestampPrefix()), chain.FeeKey(hMeta.FeePrefix())
}

// newParentDB builds a merkledb holding the universe values plus the chain metadata.
func newParentDB(vals map[int]uint64, height uint64, ts int64) (merkledb.MerkleDB, error) {
	return newParentDBFee(vals, height, ts, []byte{})
}

// hEmptyMark marks, in a parsed parent line, a key whose value is the empty byte string (only
// action keys; an 8-byte value can never equal it because real values are printed in decimal
// and this one as `E`).
const hEmptyMark = ^uint64(0) - 12345

func newParentDBFee(vals map[int]uint64, height uint64, ts int64, feeRaw []byte) (merkledb.MerkleDB, error) {
	db, err := merkledb.New(context.Background(), memdb.New(), merkledb.Config{BranchFactor: merkledb.BranchFactor16, Tracer: trace.Noop})
	if err != nil {
		return nil, err
	}
	hk, tk, fk := hMetaKeys()
	if err := errors.Join(db.Put(hk, hVal(height)), db.Put(tk, hVal(uint64(ts))), db.Put(fk, feeRaw)); err != nil {
		return nil, err
	}
	for k, v := range vals {
		b := hVal(v)
		if v == hEmptyMark && k < hNumActionKeys {
			b = []byte{}
		}
		if err := db.Put(hKey(k), b); err != nil {
			return nil, err
		}
	}
	return db, nil
}

func parseParentLine(f []string) (map[int]uint64, error) {
	vals := map[int]uint64{}
	for _, kv := range f {
		a := strings.Split(kv, "=")
		if len(a) != 2 {
			return nil, errors.New("bad parent")
		}
		k, e1 := strconv.Atoi(a[0])
		if e1 == nil && a[1] == "E" && k >= 0 && k < hNumActionKeys {
			vals[k] = hEmptyMark
			continue
		}
		v, e2 := strconv.ParseUint(a[1], 10, 64)
		if e1 != nil || e2 != nil || k < 0 || k >= hNumKeys || v == hEmptyMark {
			return nil, errors.New("bad parent")
		}
		vals[k] = v
	}
	return vals, nil
}

// showPost renders the universe part of a state like the Lean driver (`showPost`).
func showPost(ctx context.Context, im state.Immutable) string {
	parts := make([]string, hNumKeys)
	for i := 0; i < hNumKeys; i++ {
		v, err := im.GetValue(ctx, hKey(i))
		switch {
		case errors.Is(err, database.ErrNotFound):
			parts[i] = fmt.Sprintf("%d:_", i)
		case err != nil:
			parts[i] = fmt.Sprintf("%d:!%v", i, err)
		case len(v) == 0:
			parts[i] = fmt.Sprintf("%d:E", i)
		case len(v) == 8:
			parts[i] = fmt.Sprintf("%d:%d", i, binary.BigEndian.Uint64(v))
		default:
			parts[i] = fmt.Sprintf("%d:x%s", i, verifh.Hex(v))
		}
	}
	return strings.Join(parts, ",")
}

func hRules(prices, maxUnits, target fees.Dimensions) *genesis.Rules {
	r := genesis.NewDefaultRules()
	r.ChainID = hChainID
	r.MinUnitPrice = prices
	r.MaxBlockUnits = maxUnits
	r.WindowTargetUnits = target
	return r
}

// ---------------------------------------------------------------- generators shared by C01/C02

type hGenTx struct {
	sponsor int
	pre     string
	keys    map[int]int
	acts    [][]string
}

func (g *hGenTx) keysField() string {
	var ks []int
	for k := range g.keys {
		ks = append(ks, k)
	}
	sort.Ints(ks)
	parts := make([]string, len(ks))
	for i, k := range ks {
		parts[i] = fmt.Sprintf("%d:%d", k, g.keys[k])
	}
	if len(parts) == 0 {
		return "-"
	}
	return strings.Join(parts, ",")
}

func (g *hGenTx) progField() string {
	if len(g.acts) == 0 {
		return "-"
	}
	parts := make([]string, len(g.acts))
	for i, a := range g.acts {
		if len(a) == 0 {
			parts[i] = "e"
		} else {
			parts[i] = strings.Join(a, ",")
		}
	}
	return strings.Join(parts, "/")
}

var hPermChoices = []int{1, 1, 1, 1, 5, 5, 5, 5, 7, 7, 7, 3, 3, 0, 4, 2, 6, 9, 13, 255}

// genTx draws one transaction: 1..6 declared keys out of `hot` (a small subset of the universe,
// so that conflicts are frequent), random permissions, 0..3 actions of scripted ops that mostly
// respect the declared permissions but sometimes do not.
func genTx(rng *verifh.RNG, hot []int, failPct int) *hGenTx {
	g := &hGenTx{sponsor: hNumActionKeys + rng.Intn(hNumSponsors), pre: "1", keys: map[int]int{}}
	nk := 1 + rng.Intn(6)
	for i := 0; i < nk; i++ {
		k := hot[rng.Intn(len(hot))]
		g.keys[k] |= hPermChoices[rng.Intn(len(hPermChoices))]
	}
	if rng.Chance(6) { // an action that declares some sponsor's balance key
		g.keys[hNumActionKeys+rng.Intn(hNumSponsors)] |= hPermChoices[rng.Intn(len(hPermChoices))]
	}
	g.keys[g.sponsor] |= 5
	var declared []int
	for k := range g.keys {
		declared = append(declared, k)
	}
	sort.Ints(declared)
	na := rng.Intn(4)
	if na == 0 {
		// no action: the only declared key is the sponsor's
		g.keys = map[int]int{g.sponsor: 5}
		return g
	}
	for a := 0; a < na; a++ {
		var ops []string
		for n := rng.Intn(5); n > 0; n-- {
			k := declared[rng.Intn(len(declared))]
			if rng.Chance(4) {
				k = rng.Intn(hNumKeys) // possibly undeclared
			}
			if k >= hNumActionKeys && !rng.Chance(25) {
				k = declared[0]
			}
			p := g.keys[k]
			switch c := rng.Intn(10); {
			case c < 4:
				ops = append(ops, fmt.Sprintf("g%d", k))
			case c < 8:
				if p&5 != 5 && !rng.Chance(10) {
					ops = append(ops, fmt.Sprintf("g%d", k))
					continue
				}
				v := uint64(rng.Intn(4))
				if k >= hNumActionKeys {
					v = 1_000_000_000 + uint64(rng.Intn(3))
				} else if rng.Chance(8) {
					ops = append(ops, fmt.Sprintf("p%d=E", k))
					continue
				}
				ops = append(ops, fmt.Sprintf("p%d=%d", k, v))
			default:
				if p&5 != 5 && !rng.Chance(10) {
					ops = append(ops, fmt.Sprintf("g%d", k))
					continue
				}
				if k >= hNumActionKeys && !rng.Chance(20) {
					ops = append(ops, fmt.Sprintf("g%d", k))
					continue
				}
				ops = append(ops, fmt.Sprintf("d%d", k))
			}
		}
		if rng.Chance(3) {
			ops = append(ops, fmt.Sprintf("P%d", declared[rng.Intn(len(declared))]))
		}
		if rng.Chance(failPct) {
			ops = append(ops, "f")
			if rng.Bool() && len(ops) > 1 {
				i := rng.Intn(len(ops))
				ops[i], ops[len(ops)-1] = ops[len(ops)-1], ops[i]
			}
		}
		g.acts = append(g.acts, ops)
	}
	return g
}

func genParent(rng *verifh.RNG, poor bool) string {
	var parts []string
	for k := 0; k < hNumActionKeys; k++ {
		if rng.Chance(60) {
			if rng.Chance(15) {
				parts = append(parts, fmt.Sprintf("%d=E", k)) // the key exists, its value is the empty byte string
			} else {
				parts = append(parts, fmt.Sprintf("%d=%d", k, rng.Intn(4)))
			}
		}
	}
	for s := 0; s < hNumSponsors; s++ {
		bal := uint64(1_000_000_000_000)
		if poor && s == 0 {
			switch rng.Intn(3) {
			case 0:
				continue // no balance entry
			case 1:
				bal = uint64(rng.Intn(3000))
			default:
				bal = uint64(30000 + rng.Intn(200000))
			}
		}
		parts = append(parts, fmt.Sprintf("%d=%d", hNumActionKeys+s, bal))
	}
	return strings.Join(append([]string{"parent"}, parts...), " ")
}

// ---------------------------------------------------------------- plain-map sequential reference

// plainSequential is the property's right-hand side with no hypersdk state code at all: the
// state is a Go map, a tx is its line (declared keys, scripted ops) plus the units the real
// code charges; transactions are applied one at a time in block order. It shares nothing with
// tstate / executor / fetcher / fee manager, so a defect there cannot cancel out.
func plainSequential(parent map[int]uint64, specs []hTxSpec, units []fees.Dimensions, prices, maxUnits fees.Dimensions) string {
	const max64 = ^uint64(0)
	// an empty byte string is the marker value hEmptyMark (never a sponsor balance)
	st := map[int]uint64{}
	for k, v := range parent {
		st[k] = v
	}
	show := func(v uint64) string {
		if v == hEmptyMark {
			return "E"
		}
		return strconv.FormatUint(v, 10)
	}
	var consumed fees.Dimensions
	var results []string
	for i, sp := range specs {
		u := units[i]
		for d := 0; d < fees.FeeDimensions; d++ {
			if consumed[d] > max64-u[d] || consumed[d]+u[d] > maxUnits[d] {
				return "err"
			}
		}
		for d := 0; d < fees.FeeDimensions; d++ {
			consumed[d] += u[d]
		}
		ks, ps, err := parseKeysField(sp.keys)
		if err != nil {
			return "err-ref"
		}
		perm := map[int]int{}
		for j, k := range ks {
			perm[k] = int(ps[j])
		}
		acts, err := parseProgField(sp.prog)
		if err != nil {
			return "err-ref"
		}
		if sp.pre != "1" {
			return "err"
		}
		fee := uint64(0)
		for d := 0; d < fees.FeeDimensions; d++ {
			if u[d] != 0 && prices[d] > max64/u[d] {
				return "err"
			}
			c := prices[d] * u[d]
			if c > max64-fee {
				return "err"
			}
			fee += c
		}
		if perm[sp.sponsor]&1 != 1 {
			return "err"
		}
		bal, has := st[sp.sponsor]
		if bal < fee || !has || perm[sp.sponsor]&5 != 5 {
			return "err"
		}
		st[sp.sponsor] = bal - fee
		snap := map[int]uint64{}
		for k, v := range st {
			snap[k] = v
		}
		status := "ok"
		var outs []string
	actions:
		for _, ops := range acts {
			var cur []string
			for _, o := range ops {
				p := perm[o.key]
				_, present := st[o.key]
				switch o.kind {
				case 'g':
					if p&1 != 1 {
						status = "fp"
						break actions
					}
					if present {
						cur = append(cur, show(st[o.key]))
					} else {
						cur = append(cur, "_")
					}
				case 'p':
					if p&5 != 5 || (!present && p&3 != 3) {
						status = "fp"
						break actions
					}
					st[o.key] = o.val
					if o.empty {
						st[o.key] = hEmptyMark
					}
				case 'd':
					if p&5 != 5 {
						status = "fp"
						break actions
					}
					delete(st, o.key)
				case 'P':
					if p&5 != 5 {
						status = "fp"
					} else {
						status = "fv"
					}
					break actions
				case 'f':
					status = "fs"
					break actions
				}
			}
			if len(cur) == 0 {
				outs = append(outs, "e")
			} else {
				outs = append(outs, strings.Join(cur, "."))
			}
		}
		if status != "ok" {
			st = snap
		}
		o := "-"
		if len(outs) > 0 {
			o = strings.Join(outs, "/")
		}
		results = append(results, fmt.Sprintf("%d~%s~%d~%s~%s", i, status, fee, dimsStr(u, "."), o))
	}
	post := make([]string, hNumKeys)
	for k := 0; k < hNumKeys; k++ {
		if v, ok := st[k]; ok {
			post[k] = fmt.Sprintf("%d:%s", k, show(v))
		} else {
			post[k] = fmt.Sprintf("%d:_", k)
		}
	}
	res := "none"
	if len(results) > 0 {
		res = strings.Join(results, "|")
	}
	return fmt.Sprintf("ok post=%s res=%s prices=%s consumed=%s", strings.Join(post, ","), res, dimsStr(prices, "."), dimsStr(consumed, "."))
}

// genRestorePair returns two txs for the "value comes back" pattern on a key k whose value in
// the parent (or absence) is known: the first deletes or overwrites k, the second (later in the
// block) writes exactly the parent's value again / deletes a key that was absent. Whatever the
// view elides as "unchanged" must be judged against the block diff, not the parent.
func genRestorePair(rng *verifh.RNG, parent map[int]uint64) (*hGenTx, *hGenTx) {
	k := rng.Intn(hNumActionKeys)
	v, present := parent[k]
	s1, s2 := hNumActionKeys+rng.Intn(hNumSponsors), hNumActionKeys+rng.Intn(hNumSponsors)
	a := &hGenTx{sponsor: s1, pre: "1", keys: map[int]int{k: 7, s1: 5}}
	b := &hGenTx{sponsor: s2, pre: "1", keys: map[int]int{k: 7, s2: 5}}
	if present {
		if rng.Bool() {
			a.acts = [][]string{{fmt.Sprintf("d%d", k)}}
		} else {
			a.acts = [][]string{{fmt.Sprintf("p%d=%d", k, uint64(5+rng.Intn(3)))}}
		}
		back := strconv.FormatUint(v, 10)
		if v == hEmptyMark {
			back = "E"
		}
		b.acts = [][]string{{fmt.Sprintf("p%d=%s", k, back), fmt.Sprintf("g%d", k)}}
	} else {
		a.acts = [][]string{{fmt.Sprintf("p%d=%d", k, rng.Intn(4))}}
		b.acts = [][]string{{fmt.Sprintf("d%d", k), fmt.Sprintf("g%d", k)}}
	}
	if rng.Chance(30) { // same thing inside one tx pair plus a reader afterwards is covered by random ops
		b.acts = append(b.acts, []string{fmt.Sprintf("g%d", k)})
	}
	return a, b
}

// genFundPair: sponsor 0 (key hNumActionKeys) cannot pay in the parent state; an earlier tx of the
// block, paid by another sponsor, creates or tops up its balance, and a later tx is sponsored by it.
// Applied one at a time the block is fine.
func genFundPair(rng *verifh.RNG) (*hGenTx, *hGenTx) {
	poor := hNumActionKeys
	payer := hNumActionKeys + 1 + rng.Intn(hNumSponsors-1)
	a := &hGenTx{sponsor: payer, pre: "1", keys: map[int]int{poor: 7, payer: 5},
		acts: [][]string{{fmt.Sprintf("p%d=%d", poor, 1_000_000_000+rng.Intn(1000))}}}
	if rng.Chance(30) {
		a.acts[0] = append([]string{fmt.Sprintf("g%d", poor)}, a.acts[0]...)
	}
	b := &hGenTx{sponsor: poor, pre: "1", keys: map[int]int{poor: 5}}
	if rng.Bool() {
		k := rng.Intn(hNumActionKeys)
		b.keys[k] = 7
		b.acts = [][]string{{fmt.Sprintf("g%d", k), fmt.Sprintf("p%d=%d", k, rng.Intn(4))}}
	}
	return a, b
}

// moveSponsor re-sponsors every tx paid by `from` to `to` (declared keys follow).
func moveSponsor(txs []*hGenTx, from, to int) {
	for _, g := range txs {
		if g.sponsor == from {
			g.sponsor = to
			g.keys[to] |= 5
		}
	}
}

// hCompleted: the harness test ran to its end (see TestMain in the race build)
var hCompleted bool

var _ = utils.ToID
var _ = internalfees.NewManager
