package chain_test

// C12 (block level): the units consumed by every verified (Processor.Execute) and built
// (Builder.BuildBlock) block stay within MaxBlockUnits per dimension, equal the sum of the
// included transactions' Result.Units, and a block whose transactions exceed the maximum is
// rejected with ErrInvalidUnitsConsumed.
//
// Reuses the C01/C02 helpers (zz_verif_c01c02_common_test.go: scriptAction, hAuth, hKey,
// newParentDB, hRules, ...), which are overlaid next to this file.

import (
	"context"
	"errors"
	"fmt"
	"math/big"
	"regexp"
	"strconv"
	"strings"
	"testing"
	"time"

	"github.com/ava-labs/avalanchego/ids"
	"github.com/ava-labs/avalanchego/snow/engine/snowman/block"
	"github.com/ava-labs/avalanchego/trace"
	"github.com/ava-labs/avalanchego/utils/logging"
	safemath "github.com/ava-labs/avalanchego/utils/math"
	"github.com/prometheus/client_golang/prometheus"

	"github.com/ava-labs/hypersdk/chain"
	"github.com/ava-labs/hypersdk/fees"
	"github.com/ava-labs/hypersdk/genesis"
	"github.com/ava-labs/hypersdk/internal/mempool"
	"github.com/ava-labs/hypersdk/internal/validitywindow/validitywindowtest"
	"github.com/ava-labs/hypersdk/internal/verifh"
	"github.com/ava-labs/hypersdk/internal/workers"
	"github.com/ava-labs/hypersdk/state"
)

const c12bBlockTime = int64(10_000)

var c12bTooLarge = regexp.MustCompile(`(\d+) too large`)

type c12bTx struct {
	size    uint64
	authCU  uint64
	acus    []uint64
	keys    [][]int // per action, model key indices
	sponsor int     // 0..hNumSponsors-1
}

type c12bCase struct {
	mode        string
	max, target fees.Dimensions
	rc          [7]uint64
	bal         [3]uint64 // sponsor balances of the parent state (build lines; exec lines run with rich sponsors)
	txs         []c12bTx
}

func c12bMix(seed uint64) uint64 {
	z := seed + 0x9E3779B97F4A7C15
	z = (z ^ (z >> 30)) * 0xBF58476D1CE4E5B9
	z = (z ^ (z >> 27)) * 0x94D049BB133111EB
	return z ^ (z >> 31)
}

func c12bRules(c *c12bCase) *genesis.Rules {
	r := hRules(fees.Dimensions{1, 1, 1, 1, 1}, c.max, c.target)
	r.BaseComputeUnits = c.rc[0]
	r.StorageKeyReadUnits, r.StorageValueReadUnits = c.rc[1], c.rc[2]
	r.StorageKeyAllocateUnits, r.StorageValueAllocateUnits = c.rc[3], c.rc[4]
	r.StorageKeyWriteUnits, r.StorageValueWriteUnits = c.rc[5], c.rc[6]
	return r
}

// c12bBuild constructs the real transaction; blockTime is the time of the executing block.
func c12bBuild(t *c12bTx, seq int, blockTime int64) (*chain.Transaction, error) {
	base := chain.Base{Timestamp: (blockTime/1000 + 2) * 1000, ChainID: hChainID, MaxFee: ^uint64(0)}
	actions := []chain.Action{}
	for i, cu := range t.acus {
		a := &scriptAction{Nonce: uint64(seq)<<8 | uint64(i), Compute: cu, Ops: []hOp{}}
		for _, k := range t.keys[i] {
			a.Keys = append(a.Keys, k)
			a.Perms = append(a.Perms, state.Read)
		}
		actions = append(actions, a)
	}
	return chain.NewTransaction(base, actions, &hAuth{Idx: uint32(seq), Sponsor_: t.sponsor, Compute: t.authCU})
}

func c12bParse(f []string) (*c12bCase, bool) {
	if len(f) < 24 || f[0] != "blk" || (f[1] != "exec" && f[1] != "build") {
		return nil, false
	}
	c := &c12bCase{mode: f[1]}
	nums := make([]uint64, 20)
	for i := range nums {
		v, err := strconv.ParseUint(f[2+i], 10, 64)
		if err != nil {
			return nil, false
		}
		nums[i] = v
	}
	copy(c.max[:], nums[0:5])
	copy(c.target[:], nums[5:10])
	copy(c.rc[:], nums[10:17])
	copy(c.bal[:], nums[17:20])
	nT, err := strconv.Atoi(f[22])
	if err != nil || nT < 0 || nT > 64 {
		return nil, false
	}
	pos := 23
	next := func() (string, bool) {
		if pos >= len(f) {
			return "", false
		}
		pos++
		return f[pos-1], true
	}
	num := func() (uint64, bool) {
		s, ok := next()
		if !ok {
			return 0, false
		}
		v, err := strconv.ParseUint(s, 10, 64)
		return v, err == nil
	}
	keyIdx := func() (int, bool) {
		s, ok := next()
		if !ok {
			return 0, false
		}
		b, err := verifh.UnHex(s)
		if err != nil {
			return 0, false
		}
		i := hKeyIndex(string(b))
		return i, i >= 0
	}
	for t := 0; t < nT; t++ {
		var tx c12bTx
		var ok bool
		if tx.size, ok = num(); !ok {
			return nil, false
		}
		if tx.authCU, ok = num(); !ok {
			return nil, false
		}
		nA, ok := num()
		if !ok || nA > 16 {
			return nil, false
		}
		for a := uint64(0); a < nA; a++ {
			cu, ok := num()
			if !ok {
				return nil, false
			}
			nk, ok := num()
			if !ok || nk > 32 {
				return nil, false
			}
			var ks []int
			seen := map[int]bool{}
			for k := uint64(0); k < nk; k++ {
				i, ok := keyIdx()
				if !ok || i >= hNumActionKeys || seen[i] {
					return nil, false // action keys only, each once per action (a Go map)
				}
				seen[i] = true
				ks = append(ks, i)
			}
			tx.acus = append(tx.acus, cu)
			tx.keys = append(tx.keys, ks)
		}
		nS, ok := num()
		if !ok || nS != 1 {
			return nil, false // the balance handler declares exactly the sponsor's balance key
		}
		si, ok := keyIdx()
		if !ok || si < hNumActionKeys {
			return nil, false
		}
		tx.sponsor = si - hNumActionKeys
		c.txs = append(c.txs, tx)
	}
	return c, pos == len(f)
}

func c12bLine(c *c12bCase) string {
	var sb strings.Builder
	fmt.Fprintf(&sb, "blk %s %s %s", c.mode, dimsStr(c.max, " "), dimsStr(c.target, " "))
	for _, v := range c.rc {
		fmt.Fprintf(&sb, " %d", v)
	}
	fmt.Fprintf(&sb, " %d %d %d", c.bal[0], c.bal[1], c.bal[2])
	fmt.Fprintf(&sb, " %d", len(c.txs))
	for _, t := range c.txs {
		fmt.Fprintf(&sb, " %d %d %d", t.size, t.authCU, len(t.acus))
		for i, cu := range t.acus {
			fmt.Fprintf(&sb, " %d %d", cu, len(t.keys[i]))
			for _, k := range t.keys[i] {
				sb.WriteByte(' ')
				sb.WriteString(verifh.Hex(hKey(k)))
			}
		}
		fmt.Fprintf(&sb, " 1 %s", verifh.Hex(hKey(hNumActionKeys+t.sponsor)))
	}
	return sb.String()
}

func c12bProcessor(metrics *chain.ChainMetrics, rules *genesis.Rules) (*chain.Processor, func()) {
	w := workers.NewSerial()
	return chain.NewProcessor(trace.Noop, &logging.NoLog{}, &genesis.ImmutableRuleFactory{Rules: rules}, w,
		hAuthEngines{}, hMeta, hBalance, &validitywindowtest.MockTimeValidityWindow[*chain.Transaction]{}, metrics,
		chain.Config{TargetBuildDuration: time.Hour, TransactionExecutionCores: 1, StateFetchConcurrency: 1, TargetTxsSize: 1 << 30}), w.Stop
}

var c12bRich = map[int]uint64{hNumActionKeys: 1 << 60, hNumActionKeys + 1: 1 << 60, hNumActionKeys + 2: 1 << 60}

// c12bExecute runs Processor.Execute on a block holding exactly txs (parent: height 0, time 0,
// empty fee state). It returns the canonical outcome and the execution results.
func c12bExecute(ctx context.Context, metrics *chain.ChainMetrics, rules *genesis.Rules, txs []*chain.Transaction, blockTime int64, parentTs int64, bal map[int]uint64) (string, *chain.ExecutionResults) {
	db, err := newParentDB(bal, 0, parentTs)
	if err != nil {
		return "err-db", nil
	}
	root, err := db.GetMerkleRoot(ctx)
	if err != nil {
		return "err-root", nil
	}
	blk, err := chain.NewStatelessBlock(ids.Empty, blockTime, 1, txs, root, &block.Context{})
	if err != nil {
		return "err-block", nil
	}
	type res struct {
		o   *chain.OutputBlock
		err error
	}
	ch := make(chan res, 1)
	go func() {
		p, stop := c12bProcessor(metrics, rules)
		o, err := p.Execute(ctx, db, chain.NewExecutionBlock(blk), true)
		stop()
		ch <- res{o, err}
	}()
	select {
	case x := <-ch:
		switch {
		case x.err == nil:
			return "ok " + dimsStr(x.o.ExecutionResults.UnitsConsumed, ","), x.o.ExecutionResults
		case errors.Is(x.err, chain.ErrInvalidUnitsConsumed):
			// "%w: %d too large"
			dim := "?"
			if m := c12bTooLarge.FindStringSubmatch(x.err.Error()); m != nil {
				dim = m[1]
			}
			return "err-units " + dim, nil
		case errors.Is(x.err, safemath.ErrOverflow):
			return "err-overflow", nil
		case errors.Is(x.err, chain.ErrInvalidKeyValue):
			return "err-badkey", nil
		default:
			return "err-other:" + strings.ReplaceAll(x.err.Error(), " ", "_"), nil
		}
	case <-time.After(30 * time.Second):
		return "hang", nil
	}
}

// c12bOracle checks consumed <= max per dimension and consumed = sum of Result.Units.
func c12bOracle(r *verifh.Run, what, l string, max fees.Dimensions, txs []*chain.Transaction, rules *genesis.Rules, er *chain.ExecutionResults) {
	if len(er.Results) != len(txs) {
		r.Violation("results-ne-txs", "%s: %d results for %d transactions: %s", what, len(er.Results), len(txs), l)
		return
	}
	for k := 0; k < fees.FeeDimensions; k++ {
		sum := new(big.Int)
		for i, res := range er.Results {
			sum.Add(sum, new(big.Int).SetUint64(res.Units[k]))
			u, err := txs[i].Units(hBalance, rules)
			if err != nil || u != res.Units {
				r.Violation("result-units-ne-tx-units", "%s: Result.Units %v of tx %d differ from tx.Units %v (%v): %s", what, res.Units, i, u, err, l)
				return
			}
		}
		if sum.Cmp(new(big.Int).SetUint64(er.UnitsConsumed[k])) != 0 {
			r.Violation("block-consumed-ne-sum", "%s: dimension %d: recorded UnitsConsumed %d, sum of the block's Result.Units %s: %s", what, k, er.UnitsConsumed[k], sum, l)
			return
		}
		if er.UnitsConsumed[k] > max[k] || sum.Cmp(new(big.Int).SetUint64(max[k])) > 0 {
			r.Violation("block-consumed-exceeds-max", "%s: dimension %d: consumed %d (sum %s) exceeds MaxBlockUnits %d: %s", what, k, er.UnitsConsumed[k], sum, max[k], l)
			return
		}
	}
}

func TestVerifC12Block(t *testing.T) {
	r := verifh.Start("C12")
	defer r.Finish()
	r.RNG = verifh.NewRNG(c12bMix(r.Seed))
	ctx := context.Background()
	metrics, err := chain.NewMetrics(prometheus.NewRegistry())
	if err != nil {
		t.Fatal(err)
	}

	lines := r.ReplayLines()
	if lines == nil {
		lines = c12bGenerate(r)
	}
	for _, l := range lines {
		c, ok := c12bParse(verifh.Fields(l))
		if !ok {
			r.Emit(l, "bad-op")
			continue
		}
		rules := c12bRules(c)
		blockTime := c12bBlockTime
		now := time.Now().UnixMilli()
		if c.mode == "build" {
			blockTime = now
		}
		txs := make([]*chain.Transaction, len(c.txs))
		sizeOK := true
		for i := range c.txs {
			tx, err := c12bBuild(&c.txs[i], i, blockTime)
			if err != nil {
				sizeOK = false
				break
			}
			txs[i] = tx
			// dimension 0 is the encoded size
			if tx.Size() != len(tx.Bytes()) {
				r.Violation("size-ne-len-bytes", "tx.Size()=%d but len(tx.Bytes())=%d: %s", tx.Size(), len(tx.Bytes()), l)
			}
			if uint64(tx.Size()) != c.txs[i].size {
				sizeOK = false
			}
		}
		if !sizeOK {
			r.Emit(l, "size-mismatch") // the line's sizes are not the real encoded sizes
			continue
		}

		if c.mode == "exec" {
			out, er := c12bExecute(ctx, metrics, rules, txs, blockTime, 0, c12bRich)
			r.Emit(l, out)
			r.Count("exec:" + strings.Fields(out)[0])
			// exact totals of the block's transactions
			over := false
			for k := 0; k < fees.FeeDimensions; k++ {
				sum := new(big.Int)
				for _, tx := range txs {
					u, err := tx.Units(hBalance, rules)
					if err != nil {
						sum = nil
						break
					}
					sum.Add(sum, new(big.Int).SetUint64(u[k]))
				}
				if sum != nil && sum.Cmp(new(big.Int).SetUint64(c.max[k])) > 0 {
					over = true
				}
			}
			if over {
				r.Distinct(l)
				if er != nil {
					r.Violation("block-over-max-accepted", "Execute accepted a block whose transactions' units exceed MaxBlockUnits %v (recorded %v): %s", c.max, er.UnitsConsumed, l)
				} else if !strings.HasPrefix(out, "err-units") {
					r.Violation("block-over-max-wrong-error", "a block exceeding MaxBlockUnits was rejected with %s instead of ErrInvalidUnitsConsumed: %s", out, l)
				}
			} else if er == nil && !strings.HasPrefix(out, "err-overflow") && !strings.HasPrefix(out, "err-badkey") {
				r.Violation("block-within-max-rejected", "Execute rejected (%s) a block whose transactions fit MaxBlockUnits %v: %s", out, c.max, l)
			}
			if er != nil {
				c12bOracle(r, "Execute", l, c.max, txs, rules, er)
			}
			continue
		}

		// build: mempool holds the transactions; then verify the built block
		r.Emit(l, "build-done")
		bal := map[int]uint64{hNumActionKeys: c.bal[0], hNumActionKeys + 1: c.bal[1], hNumActionKeys + 2: c.bal[2]}
		db, err := newParentDB(bal, 0, now-5000)
		if err != nil {
			continue
		}
		mp := mempool.New[*chain.Transaction](trace.Noop, 100_000, 100_000)
		mp.Add(ctx, txs)
		cfg := chain.Config{TargetBuildDuration: time.Hour, TransactionExecutionCores: 1, StateFetchConcurrency: 1, TargetTxsSize: 1 << 30}
		builder := chain.NewBuilder(trace.Noop, &genesis.ImmutableRuleFactory{Rules: rules}, &logging.NoLog{}, hMeta, hBalance, mp,
			&validitywindowtest.MockTimeValidityWindow[*chain.Transaction]{}, metrics, cfg)
		pblk, err := chain.NewStatelessBlock(ids.Empty, now-5000, 0, nil, ids.Empty, nil)
		if err != nil {
			continue
		}
		type bres struct {
			eb  *chain.ExecutionBlock
			ob  *chain.OutputBlock
			err error
		}
		ch := make(chan bres, 1)
		go func() {
			eb, ob, err := builder.BuildBlock(ctx, nil, &chain.OutputBlock{ExecutionBlock: chain.NewExecutionBlock(pblk), View: db})
			ch <- bres{eb, ob, err}
		}()
		var b bres
		select {
		case b = <-ch:
		case <-time.After(30 * time.Second):
			r.Violation("build-hang", "BuildBlock did not return within 30s: %s", l)
			continue
		}
		if b.err != nil {
			r.Count("build:err")
			continue
		}
		r.Count(fmt.Sprintf("build:included=%d/%d", len(b.eb.StatelessBlock.Txs), len(txs)))
		if len(b.eb.StatelessBlock.Txs) < len(txs) {
			r.Distinct(l)
		}
		if c.bal != [3]uint64{1 << 60, 1 << 60, 1 << 60} {
			r.Count("build:poor-sponsor")
		}
		c12bOracle(r, "BuildBlock", l, c.max, b.eb.StatelessBlock.Txs, rules, b.ob.ExecutionResults)
		// the built block verifies with the same consumption
		out, er := c12bExecute(ctx, metrics, rules, b.eb.StatelessBlock.Txs, b.eb.StatelessBlock.Tmstmp, now-5000, bal)
		if er == nil {
			r.Violation("built-block-rejected", "the built block is rejected by Execute (%s): %s", out, l)
		} else if er.UnitsConsumed != b.ob.ExecutionResults.UnitsConsumed {
			r.Violation("built-consumed-ne-verified", "builder recorded %v, verification %v: %s", b.ob.ExecutionResults.UnitsConsumed, er.UnitsConsumed, l)
		}
	}
}

func c12bGenerate(r *verifh.Run) []string {
	rng := r.RNG
	var lines []string
	n := r.N(360, 6000)
	for it := 0; it < n; it++ {
		c := &c12bCase{mode: "exec"}
		if it%3 == 2 {
			c.mode = "build"
		}
		genTime := c12bBlockTime
		if c.mode == "build" { // built blocks carry the current time; the encoded size depends on it
			genTime = time.Now().UnixMilli()
		}
		c.rc = [7]uint64{uint64(rng.Intn(4)), uint64(rng.Intn(8)), uint64(rng.Intn(4)), uint64(rng.Intn(30)), uint64(rng.Intn(8)), uint64(rng.Intn(15)), uint64(rng.Intn(5))}
		nT := 1 + rng.Intn(6)
		for i := 0; i < nT; i++ {
			tx := c12bTx{authCU: uint64(rng.Intn(5)), sponsor: rng.Intn(hNumSponsors)}
			nA := rng.Intn(4)
			for a := 0; a < nA; a++ {
				tx.acus = append(tx.acus, uint64(rng.Intn(20)))
				var ks []int
				for k := 0; k < hNumActionKeys; k++ {
					if rng.Intn(4) == 0 {
						ks = append(ks, k)
					}
				}
				tx.keys = append(tx.keys, ks)
			}
			real, err := c12bBuild(&tx, i, genTime)
			if err != nil {
				panic(err)
			}
			tx.size = uint64(real.Size())
			c.txs = append(c.txs, tx)
		}
		// exact totals, then a tight maximum: equal to the total, one below it in one
		// dimension, the total of a prefix, or generous
		rules := c12bRules(c)
		var total, prefix fees.Dimensions
		cut := rng.Intn(nT + 1)
		for i := range c.txs {
			real, _ := c12bBuild(&c.txs[i], i, genTime)
			u, err := real.Units(hBalance, rules)
			if err != nil {
				panic(err)
			}
			for k := range total {
				total[k] += u[k]
				if i < cut {
					prefix[k] += u[k]
				}
			}
		}
		c.bal = [3]uint64{1 << 60, 1 << 60, 1 << 60}
		poor := c.mode == "build" && rng.Intn(2) == 0
		if poor {
			// a sponsor whose balance pays all but the last unit of its transactions' fees
			// (unit prices are 1, so a fee is the sum of the units): whichever order the
			// builder tries them in, one passes the unit check and then fails PreExecute
			s := c.txs[rng.Intn(nT)].sponsor
			if nT >= 2 && rng.Intn(3) != 0 { // make sure the sponsor has at least two transactions
				for tries := 0; tries < 2; tries++ {
					c.txs[rng.Intn(nT)].sponsor = s
				}
			}
			var fees_ uint64
			for i := range c.txs {
				if c.txs[i].sponsor == s {
					real, _ := c12bBuild(&c.txs[i], i, genTime)
					u, _ := real.Units(hBalance, rules)
					for k := range u {
						fees_ += u[k]
					}
				}
			}
			switch rng.Intn(3) {
			case 0:
				c.bal[s] = fees_ - 1
			case 1:
				c.bal[s] = fees_ / 2
			default:
				c.bal[s] = fees_ - uint64(rng.Intn(int(fees_/2)+1)) - 1
			}
		}
		mx := rng.Intn(5)
		if poor && rng.Intn(3) != 0 {
			mx = 3 // generous maximum: only the balance decides
		}
		switch mx {
		case 0:
			c.max = total
		case 1:
			c.max = total
			k := rng.Intn(fees.FeeDimensions)
			if c.max[k] > 0 {
				c.max[k]--
			}
		case 2:
			c.max = prefix
			for k := range c.max {
				if rng.Intn(3) != 0 {
					c.max[k] = total[k] + uint64(rng.Intn(3))
				}
			}
		case 3:
			for k := range c.max {
				c.max[k] = total[k] * 2
			}
		default:
			for k := range c.max {
				c.max[k] = total[k]/2 + uint64(rng.Intn(int(total[k]/2)+2))
			}
		}
		// the window target differs from the maximum (below, or far above)
		tmode := rng.Intn(3) // all far above the maximum, all below it, or mixed
		for k := range c.target {
			tm := tmode
			if tmode == 2 {
				tm = rng.Intn(3)
			}
			switch tm {
			case 0:
				c.target[k] = c.max[k]*3 + 7
			case 1:
				c.target[k] = c.max[k]/2 + 1
			default:
				c.target[k] = 1 + uint64(rng.Intn(50))
			}
		}
		lines = append(lines, c12bLine(c))
	}
	return lines
}
