package chain_test

// C12 (block level): the units consumed by every verified (Processor.Execute) and built
// (Builder.BuildBlock) block stay within MaxBlockUnits per dimension, equal the sum of the
// included transactions' Result.Units, and a block whose transactions exceed the maximum is
// rejected with ErrInvalidUnitsConsumed.
//
// Reuses the C01/C02 helpers (zz_verif_c01c02_common_test.go: scriptAction, hAuth, hKey,
// newParentDB, hRules, ...), which are overlaid next to this file.

import (
	"context"
	"errors"
	"fmt"
	"math/big"
	"regexp"
	"strconv"
	"strings"
	"testing"
	"time"

	"github.com/ava-labs/avalanchego/ids"
	"github.com/ava-labs/avalanchego/snow/engine/snowman/block"
	"github.com/ava-labs/avalanchego/trace"
	"github.com/ava-labs/avalanchego/utils/logging"
	"github.com/ava-labs/avalanchego/x/merkledb"
	safemath "github.com/ava-labs/avalanchego/utils/math"
	"github.com/prometheus/client_golang/prometheus"

	"github.com/ava-labs/hypersdk/chain"
	"github.com/ava-labs/hypersdk/fees"
	"github.com/ava-labs/hypersdk/genesis"
	"github.com/ava-labs/hypersdk/internal/mempool"
	"github.com/ava-labs/hypersdk/internal/validitywindow/validitywindowtest"
	"github.com/ava-labs/hypersdk/internal/verifh"
	"github.com/ava-labs/hypersdk/internal/workers"
	"github.com/ava-labs/hypersdk/state"
)

const c12bBlockTime = int64(10_000)

var c12bTooLarge = regexp.MustCompile(`(\d+) too large`)

type c12bTx struct {
	size    uint64
	authCU  uint64
	acus    []uint64
	keys    [][]int // per action, model key indices
	sponsor int     // 0..hNumSponsors-1
}

type c12bCase struct {
	mode        string
	max, target fees.Dimensions
	rc          [7]uint64
	bal         [3]uint64 // sponsor balances of the parent state (build lines; exec lines run with rich sponsors)
	txs         []c12bTx
}

func c12bMix(seed uint64) uint64 {
	z := seed + 0x9E3779B97F4A7C15
	z = (z ^ (z >> 30)) * 0xBF58476D1CE4E5B9
	z = (z ^ (z >> 27)) * 0x94D049BB133111EB
	return z ^ (z >> 31)
}

func c12bRules(c *c12bCase) *genesis.Rules {
	r := hRules(fees.Dimensions{1, 1, 1, 1, 1}, c.max, c.target)
	r.BaseComputeUnits = c.rc[0]
	r.StorageKeyReadUnits, r.StorageValueReadUnits = c.rc[1], c.rc[2]
	r.StorageKeyAllocateUnits, r.StorageValueAllocateUnits = c.rc[3], c.rc[4]
	r.StorageKeyWriteUnits, r.StorageValueWriteUnits = c.rc[5], c.rc[6]
	return r
}

// c12bBuild constructs the real transaction; blockTime is the time of the executing block.
func c12bBuild(t *c12bTx, seq int, blockTime int64) (*chain.Transaction, error) {
	base := chain.Base{Timestamp: (blockTime/1000 + 2) * 1000, ChainID: hChainID, MaxFee: ^uint64(0)}
	actions := []chain.Action{}
	for i, cu := range t.acus {
		a := &scriptAction{Nonce: uint64(seq)<<8 | uint64(i), Compute: cu, Ops: []hOp{}}
		for _, k := range t.keys[i] {
			a.Keys = append(a.Keys, k)
			a.Perms = append(a.Perms, state.Read)
		}
		actions = append(actions, a)
	}
	return chain.NewTransaction(base, actions, &hAuth{Idx: uint32(seq), Sponsor_: t.sponsor, Compute: t.authCU})
}

func c12bParse(f []string) (*c12bCase, bool) {
	if len(f) < 24 || f[0] != "blk" || (f[1] != "exec" && f[1] != "build") {
		return nil, false
	}
	c := &c12bCase{mode: f[1]}
	nums := make([]uint64, 20)
	for i := range nums {
		v, err := strconv.ParseUint(f[2+i], 10, 64)
		if err != nil {
			return nil, false
		}
		nums[i] = v
	}
	copy(c.max[:], nums[0:5])
	copy(c.target[:], nums[5:10])
	copy(c.rc[:], nums[10:17])
	copy(c.bal[:], nums[17:20])
	nT, err := strconv.Atoi(f[22])
	if err != nil || nT < 0 || nT > 64 {
		return nil, false
	}
	txs, pos, ok := c12bParseTxs(f, 23, nT)
	if !ok {
		return nil, false
	}
	c.txs = txs
	return c, pos == len(f)
}

// c12bParseTxs reads n transaction descriptions
// (<size> <authCU> <nActions> (<cu> <nKeys> <key>*)* 1 <sponsor balance key>) starting at f[pos].
func c12bParseTxs(f []string, pos int, n int) ([]c12bTx, int, bool) {
	var out []c12bTx
	next := func() (string, bool) {
		if pos >= len(f) {
			return "", false
		}
		pos++
		return f[pos-1], true
	}
	num := func() (uint64, bool) {
		s, ok := next()
		if !ok {
			return 0, false
		}
		v, err := strconv.ParseUint(s, 10, 64)
		return v, err == nil
	}
	keyIdx := func() (int, bool) {
		s, ok := next()
		if !ok {
			return 0, false
		}
		b, err := verifh.UnHex(s)
		if err != nil {
			return 0, false
		}
		i := hKeyIndex(string(b))
		return i, i >= 0
	}
	for t := 0; t < n; t++ {
		var tx c12bTx
		var ok bool
		if tx.size, ok = num(); !ok {
			return nil, pos, false
		}
		if tx.authCU, ok = num(); !ok {
			return nil, pos, false
		}
		nA, ok := num()
		if !ok || nA > 16 {
			return nil, pos, false
		}
		for a := uint64(0); a < nA; a++ {
			cu, ok := num()
			if !ok {
				return nil, pos, false
			}
			nk, ok := num()
			if !ok || nk > 32 {
				return nil, pos, false
			}
			var ks []int
			seen := map[int]bool{}
			for k := uint64(0); k < nk; k++ {
				i, ok := keyIdx()
				if !ok || i >= hNumActionKeys || seen[i] {
					return nil, pos, false // action keys only, each once per action (a Go map)
				}
				seen[i] = true
				ks = append(ks, i)
			}
			tx.acus = append(tx.acus, cu)
			tx.keys = append(tx.keys, ks)
		}
		nS, ok := num()
		if !ok || nS != 1 {
			return nil, pos, false // the balance handler declares exactly the sponsor's balance key
		}
		si, ok := keyIdx()
		if !ok || si < hNumActionKeys {
			return nil, pos, false
		}
		tx.sponsor = si - hNumActionKeys
		out = append(out, tx)
	}
	return out, pos, true
}

// c12bParse2 parses `blk2 <gap> <max×5> <target×5> <rules×7> <nP> <tx>* <nC> <tx>*`.
func c12bParse2(f []string) (gap uint64, c *c12bCase, child []c12bTx, ok bool) {
	if len(f) < 21 || f[0] != "blk2" {
		return 0, nil, nil, false
	}
	nums := make([]uint64, 18)
	for i := range nums {
		v, err := strconv.ParseUint(f[1+i], 10, 64)
		if err != nil {
			return 0, nil, nil, false
		}
		nums[i] = v
	}
	gap = nums[0]
	if gap > 50 {
		return 0, nil, nil, false
	}
	c = &c12bCase{mode: "chain", bal: [3]uint64{1 << 60, 1 << 60, 1 << 60}}
	copy(c.max[:], nums[1:6])
	copy(c.target[:], nums[6:11])
	copy(c.rc[:], nums[11:18])
	nP, err := strconv.Atoi(f[19])
	if err != nil || nP < 0 || nP > 64 {
		return 0, nil, nil, false
	}
	txs, pos, ok := c12bParseTxs(f, 20, nP)
	if !ok || pos >= len(f) {
		return 0, nil, nil, false
	}
	nC, err := strconv.Atoi(f[pos])
	if err != nil || nC < 0 || nC > 64 {
		return 0, nil, nil, false
	}
	child, pos, ok = c12bParseTxs(f, pos+1, nC)
	if !ok || pos != len(f) {
		return 0, nil, nil, false
	}
	c.txs = txs
	return gap, c, child, true
}

func c12bTxFields(sb *strings.Builder, txs []c12bTx) {
	fmt.Fprintf(sb, " %d", len(txs))
	for _, t := range txs {
		fmt.Fprintf(sb, " %d %d %d", t.size, t.authCU, len(t.acus))
		for i, cu := range t.acus {
			fmt.Fprintf(sb, " %d %d", cu, len(t.keys[i]))
			for _, k := range t.keys[i] {
				sb.WriteByte(' ')
				sb.WriteString(verifh.Hex(hKey(k)))
			}
		}
		fmt.Fprintf(sb, " 1 %s", verifh.Hex(hKey(hNumActionKeys+t.sponsor)))
	}
}

func c12bLine(c *c12bCase) string {
	var sb strings.Builder
	fmt.Fprintf(&sb, "blk %s %s %s", c.mode, dimsStr(c.max, " "), dimsStr(c.target, " "))
	for _, v := range c.rc {
		fmt.Fprintf(&sb, " %d", v)
	}
	fmt.Fprintf(&sb, " %d %d %d", c.bal[0], c.bal[1], c.bal[2])
	fmt.Fprintf(&sb, " %d", len(c.txs))
	for _, t := range c.txs {
		fmt.Fprintf(&sb, " %d %d %d", t.size, t.authCU, len(t.acus))
		for i, cu := range t.acus {
			fmt.Fprintf(&sb, " %d %d", cu, len(t.keys[i]))
			for _, k := range t.keys[i] {
				sb.WriteByte(' ')
				sb.WriteString(verifh.Hex(hKey(k)))
			}
		}
		fmt.Fprintf(&sb, " 1 %s", verifh.Hex(hKey(hNumActionKeys+t.sponsor)))
	}
	return sb.String()
}

func c12bProcessor(metrics *chain.ChainMetrics, rules *genesis.Rules) (*chain.Processor, func()) {
	w := workers.NewSerial()
	return chain.NewProcessor(trace.Noop, &logging.NoLog{}, &genesis.ImmutableRuleFactory{Rules: rules}, w,
		hAuthEngines{}, hMeta, hBalance, &validitywindowtest.MockTimeValidityWindow[*chain.Transaction]{}, metrics,
		chain.Config{TargetBuildDuration: time.Hour, TransactionExecutionCores: 1, StateFetchConcurrency: 1, TargetTxsSize: 1 << 30}), w.Stop
}

var c12bRich = map[int]uint64{hNumActionKeys: 1 << 60, hNumActionKeys + 1: 1 << 60, hNumActionKeys + 2: 1 << 60}

// c12bExecute runs Processor.Execute on a block holding exactly txs (parent: height 0, time
// parentTs, empty fee state). It returns the canonical outcome and the execution results.
func c12bExecute(ctx context.Context, metrics *chain.ChainMetrics, rules *genesis.Rules, txs []*chain.Transaction, blockTime int64, parentTs int64, bal map[int]uint64) (string, *chain.ExecutionResults) {
	db, err := newParentDB(bal, 0, parentTs)
	if err != nil {
		return "err-db", nil
	}
	out, ob := c12bExecOn(ctx, metrics, rules, db, 1, txs, blockTime)
	if ob == nil {
		return out, nil
	}
	return out, ob.ExecutionResults
}

// c12bExecOn executes a block of height `height` holding txs on the given parent view.
func c12bExecOn(ctx context.Context, metrics *chain.ChainMetrics, rules *genesis.Rules, parent merkledb.View, height uint64, txs []*chain.Transaction, blockTime int64) (string, *chain.OutputBlock) {
	root, err := parent.GetMerkleRoot(ctx)
	if err != nil {
		return "err-root", nil
	}
	blk, err := chain.NewStatelessBlock(ids.Empty, blockTime, height, txs, root, &block.Context{})
	if err != nil {
		return "err-block", nil
	}
	type res struct {
		o   *chain.OutputBlock
		err error
	}
	ch := make(chan res, 1)
	go func() {
		p, stop := c12bProcessor(metrics, rules)
		o, err := p.Execute(ctx, parent, chain.NewExecutionBlock(blk), true)
		stop()
		ch <- res{o, err}
	}()
	select {
	case x := <-ch:
		switch {
		case x.err == nil:
			return "ok " + dimsStr(x.o.ExecutionResults.UnitsConsumed, ","), x.o
		case errors.Is(x.err, chain.ErrInvalidUnitsConsumed):
			// "%w: %d too large"
			dim := "?"
			if m := c12bTooLarge.FindStringSubmatch(x.err.Error()); m != nil {
				dim = m[1]
			}
			return "err-units " + dim, nil
		case errors.Is(x.err, safemath.ErrOverflow):
			return "err-overflow", nil
		case errors.Is(x.err, chain.ErrInvalidKeyValue):
			return "err-badkey", nil
		default:
			return "err-other:" + strings.ReplaceAll(x.err.Error(), " ", "_"), nil
		}
	case <-time.After(30 * time.Second):
		return "hang", nil
	}
}

// c12bFits reports whether the exact per-dimension sums of the transactions' units are within max.
func c12bFits(txs []*chain.Transaction, rules *genesis.Rules, max fees.Dimensions) bool {
	for k := 0; k < fees.FeeDimensions; k++ {
		sum := new(big.Int)
		for _, tx := range txs {
			u, err := tx.Units(hBalance, rules)
			if err != nil {
				return true // not a metering question
			}
			sum.Add(sum, new(big.Int).SetUint64(u[k]))
		}
		if sum.Cmp(new(big.Int).SetUint64(max[k])) > 0 {
			return false
		}
	}
	return true
}

// c12bOracle checks consumed <= max per dimension and consumed = sum of Result.Units.
func c12bOracle(r *verifh.Run, what, l string, max fees.Dimensions, txs []*chain.Transaction, rules *genesis.Rules, er *chain.ExecutionResults) {
	if len(er.Results) != len(txs) {
		r.Violation("results-ne-txs", "%s: %d results for %d transactions: %s", what, len(er.Results), len(txs), l)
		return
	}
	for k := 0; k < fees.FeeDimensions; k++ {
		sum := new(big.Int)
		for i, res := range er.Results {
			sum.Add(sum, new(big.Int).SetUint64(res.Units[k]))
			u, err := txs[i].Units(hBalance, rules)
			if err != nil || u != res.Units {
				r.Violation("result-units-ne-tx-units", "%s: Result.Units %v of tx %d differ from tx.Units %v (%v): %s", what, res.Units, i, u, err, l)
				return
			}
		}
		if sum.Cmp(new(big.Int).SetUint64(er.UnitsConsumed[k])) != 0 {
			r.Violation("block-consumed-ne-sum", "%s: dimension %d: recorded UnitsConsumed %d, sum of the block's Result.Units %s: %s", what, k, er.UnitsConsumed[k], sum, l)
			return
		}
		if er.UnitsConsumed[k] > max[k] || sum.Cmp(new(big.Int).SetUint64(max[k])) > 0 {
			r.Violation("block-consumed-exceeds-max", "%s: dimension %d: consumed %d (sum %s) exceeds MaxBlockUnits %d: %s", what, k, er.UnitsConsumed[k], sum, max[k], l)
			return
		}
	}
}

func TestVerifC12Block(t *testing.T) {
	r := verifh.Start("C12")
	defer r.Finish()
	r.RNG = verifh.NewRNG(c12bMix(r.Seed))
	ctx := context.Background()
	metrics, err := chain.NewMetrics(prometheus.NewRegistry())
	if err != nil {
		t.Fatal(err)
	}

	lines := r.ReplayLines()
	if lines == nil {
		lines = c12bGenerate(r)
	}
	for _, l := range lines {
		if f := verifh.Fields(l); len(f) > 0 && f[0] == "blk2" {
			c12bChain(ctx, r, metrics, l, f)
			continue
		}
		c, ok := c12bParse(verifh.Fields(l))
		if !ok {
			r.Emit(l, "bad-op")
			continue
		}
		rules := c12bRules(c)
		blockTime := c12bBlockTime
		now := time.Now().UnixMilli()
		if c.mode == "build" {
			blockTime = now
		}
		txs := make([]*chain.Transaction, len(c.txs))
		sizeOK := true
		for i := range c.txs {
			tx, err := c12bBuild(&c.txs[i], i, blockTime)
			if err != nil {
				sizeOK = false
				break
			}
			txs[i] = tx
			// dimension 0 is the encoded size
			if tx.Size() != len(tx.Bytes()) {
				r.Violation("size-ne-len-bytes", "tx.Size()=%d but len(tx.Bytes())=%d: %s", tx.Size(), len(tx.Bytes()), l)
			}
			if uint64(tx.Size()) != c.txs[i].size {
				sizeOK = false
			}
		}
		if !sizeOK {
			r.Emit(l, "size-mismatch") // the line's sizes are not the real encoded sizes
			continue
		}

		if c.mode == "exec" {
			out, er := c12bExecute(ctx, metrics, rules, txs, blockTime, 0, c12bRich)
			r.Emit(l, out)
			r.Count("exec:" + strings.Fields(out)[0])
			// exact totals of the block's transactions
			over := false
			for k := 0; k < fees.FeeDimensions; k++ {
				sum := new(big.Int)
				for _, tx := range txs {
					u, err := tx.Units(hBalance, rules)
					if err != nil {
						sum = nil
						break
					}
					sum.Add(sum, new(big.Int).SetUint64(u[k]))
				}
				if sum != nil && sum.Cmp(new(big.Int).SetUint64(c.max[k])) > 0 {
					over = true
				}
			}
			if over {
				r.Distinct(l)
				if er != nil {
					r.Violation("block-over-max-accepted", "Execute accepted a block whose transactions' units exceed MaxBlockUnits %v (recorded %v): %s", c.max, er.UnitsConsumed, l)
				} else if !strings.HasPrefix(out, "err-units") {
					r.Violation("block-over-max-wrong-error", "a block exceeding MaxBlockUnits was rejected with %s instead of ErrInvalidUnitsConsumed: %s", out, l)
				}
			} else if er == nil && !strings.HasPrefix(out, "err-overflow") && !strings.HasPrefix(out, "err-badkey") {
				r.Violation("block-within-max-rejected", "Execute rejected (%s) a block whose transactions fit MaxBlockUnits %v: %s", out, c.max, l)
			}
			if er != nil {
				c12bOracle(r, "Execute", l, c.max, txs, rules, er)
			}
			continue
		}

		// build: mempool holds the transactions; then verify the built block
		r.Emit(l, "build-done")
		bal := map[int]uint64{hNumActionKeys: c.bal[0], hNumActionKeys + 1: c.bal[1], hNumActionKeys + 2: c.bal[2]}
		db, err := newParentDB(bal, 0, now-5000)
		if err != nil {
			continue
		}
		mp := mempool.New[*chain.Transaction](trace.Noop, 100_000, 100_000)
		mp.Add(ctx, txs)
		cfg := chain.Config{TargetBuildDuration: time.Hour, TransactionExecutionCores: 1, StateFetchConcurrency: 1, TargetTxsSize: 1 << 30}
		builder := chain.NewBuilder(trace.Noop, &genesis.ImmutableRuleFactory{Rules: rules}, &logging.NoLog{}, hMeta, hBalance, mp,
			&validitywindowtest.MockTimeValidityWindow[*chain.Transaction]{}, metrics, cfg)
		pblk, err := chain.NewStatelessBlock(ids.Empty, now-5000, 0, nil, ids.Empty, nil)
		if err != nil {
			continue
		}
		type bres struct {
			eb  *chain.ExecutionBlock
			ob  *chain.OutputBlock
			err error
		}
		ch := make(chan bres, 1)
		go func() {
			eb, ob, err := builder.BuildBlock(ctx, nil, &chain.OutputBlock{ExecutionBlock: chain.NewExecutionBlock(pblk), View: db})
			ch <- bres{eb, ob, err}
		}()
		var b bres
		select {
		case b = <-ch:
		case <-time.After(30 * time.Second):
			r.Violation("build-hang", "BuildBlock did not return within 30s: %s", l)
			continue
		}
		if b.err != nil {
			r.Count("build:err")
			continue
		}
		r.Count(fmt.Sprintf("build:included=%d/%d", len(b.eb.StatelessBlock.Txs), len(txs)))
		if len(b.eb.StatelessBlock.Txs) < len(txs) {
			r.Distinct(l)
		}
		if c.bal != [3]uint64{1 << 60, 1 << 60, 1 << 60} {
			r.Count("build:poor-sponsor")
		}
		c12bOracle(r, "BuildBlock", l, c.max, b.eb.StatelessBlock.Txs, rules, b.ob.ExecutionResults)
		// the built block verifies with the same consumption
		out, er := c12bExecute(ctx, metrics, rules, b.eb.StatelessBlock.Txs, b.eb.StatelessBlock.Tmstmp, now-5000, bal)
		if er == nil {
			r.Violation("built-block-rejected", "the built block is rejected by Execute (%s): %s", out, l)
		} else if er.UnitsConsumed != b.ob.ExecutionResults.UnitsConsumed {
			r.Violation("built-consumed-ne-verified", "builder recorded %v, verification %v: %s", b.ob.ExecutionResults.UnitsConsumed, er.UnitsConsumed, l)
		}
	}
}

// c12bChain: a non-empty parent block, then a child `gap` seconds later, both through the real
// Processor; the child is metered on parent.ComputeNext and must record only its own units.
func c12bChain(ctx context.Context, r *verifh.Run, metrics *chain.ChainMetrics, l string, f []string) {
	gap, c, childSpecs, ok := c12bParse2(f)
	if !ok {
		r.Emit(l, "bad-op")
		return
	}
	rules := c12bRules(c)
	t1 := c12bBlockTime
	t2 := c12bBlockTime + int64(gap)*1000 + 500
	build := func(specs []c12bTx, seq0 int, bt int64) ([]*chain.Transaction, bool) {
		txs := make([]*chain.Transaction, len(specs))
		for i := range specs {
			tx, err := c12bBuild(&specs[i], seq0+i, bt)
			if err != nil || uint64(tx.Size()) != specs[i].size {
				return nil, false
			}
			if tx.Size() != len(tx.Bytes()) {
				r.Violation("size-ne-len-bytes", "tx.Size()=%d but len(tx.Bytes())=%d: %s", tx.Size(), len(tx.Bytes()), l)
			}
			txs[i] = tx
		}
		return txs, true
	}
	ptxs, ok1 := build(c.txs, 0, t1)
	ctxs, ok2 := build(childSpecs, 100, t2)
	if !ok1 || !ok2 {
		r.Emit(l, "size-mismatch")
		return
	}
	rules.MinBlockGap = 0
	db, err := newParentDB(c12bRich, 0, 0)
	if err != nil {
		r.Emit(l, "err-db")
		return
	}
	r.Count(fmt.Sprintf("chain:gap=%d", gap))
	pout, pob := c12bExecOn(ctx, metrics, rules, db, 1, ptxs, t1)
	if pob == nil {
		r.Emit(l, "parent:"+pout)
		if c12bFits(ptxs, rules, c.max) {
			r.Violation("block-within-max-rejected", "Execute rejected (%s) a parent block whose transactions fit MaxBlockUnits %v: %s", pout, c.max, l)
		}
		return
	}
	c12bOracle(r, "Execute(parent)", l, c.max, ptxs, rules, pob.ExecutionResults)
	cout, cob := c12bExecOn(ctx, metrics, rules, pob.View, 2, ctxs, t2)
	if cob == nil {
		r.Emit(l, "child:"+cout)
		r.Count("chain:child-rejected")
		if c12bFits(ctxs, rules, c.max) {
			r.Violation("block-within-max-rejected", "Execute rejected (%s) a child block (%d s after a parent that consumed %v) whose own transactions fit MaxBlockUnits %v: %s",
				cout, gap, pob.ExecutionResults.UnitsConsumed, c.max, l)
		}
		return
	}
	r.Emit(l, "ok "+dimsStr(pob.ExecutionResults.UnitsConsumed, ",")+" "+dimsStr(cob.ExecutionResults.UnitsConsumed, ","))
	r.Distinct(l)
	if !c12bFits(ctxs, rules, c.max) {
		r.Violation("block-over-max-accepted", "Execute accepted a child block whose transactions' units exceed MaxBlockUnits %v: %s", c.max, l)
	}
	c12bOracle(r, fmt.Sprintf("Execute(child, %d s after a parent that consumed %v)", gap, pob.ExecutionResults.UnitsConsumed), l, c.max, ctxs, rules, cob.ExecutionResults)
}

func c12bGenerate(r *verifh.Run) []string {
	rng := r.RNG
	var lines []string
	n := r.N(360, 6000)
	for it := 0; it < n; it++ {
		c := &c12bCase{mode: "exec"}
		if it%3 == 2 {
			c.mode = "build"
		}
		genTime := c12bBlockTime
		if c.mode == "build" { // built blocks carry the current time; the encoded size depends on it
			genTime = time.Now().UnixMilli()
		}
		c.rc = [7]uint64{uint64(rng.Intn(4)), uint64(rng.Intn(8)), uint64(rng.Intn(4)), uint64(rng.Intn(30)), uint64(rng.Intn(8)), uint64(rng.Intn(15)), uint64(rng.Intn(5))}
		nT := 1 + rng.Intn(6)
		for i := 0; i < nT; i++ {
			tx := c12bTx{authCU: uint64(rng.Intn(5)), sponsor: rng.Intn(hNumSponsors)}
			nA := rng.Intn(4)
			for a := 0; a < nA; a++ {
				tx.acus = append(tx.acus, uint64(rng.Intn(20)))
				var ks []int
				for k := 0; k < hNumActionKeys; k++ {
					if rng.Intn(4) == 0 {
						ks = append(ks, k)
					}
				}
				tx.keys = append(tx.keys, ks)
			}
			real, err := c12bBuild(&tx, i, genTime)
			if err != nil {
				panic(err)
			}
			tx.size = uint64(real.Size())
			c.txs = append(c.txs, tx)
		}
		// exact totals, then a tight maximum: equal to the total, one below it in one
		// dimension, the total of a prefix, or generous
		rules := c12bRules(c)
		var total, prefix fees.Dimensions
		cut := rng.Intn(nT + 1)
		for i := range c.txs {
			real, _ := c12bBuild(&c.txs[i], i, genTime)
			u, err := real.Units(hBalance, rules)
			if err != nil {
				panic(err)
			}
			for k := range total {
				total[k] += u[k]
				if i < cut {
					prefix[k] += u[k]
				}
			}
		}
		c.bal = [3]uint64{1 << 60, 1 << 60, 1 << 60}
		poor := c.mode == "build" && rng.Intn(2) == 0
		if poor {
			// a sponsor whose balance pays all but the last unit of its transactions' fees
			// (unit prices are 1, so a fee is the sum of the units): whichever order the
			// builder tries them in, one passes the unit check and then fails PreExecute
			s := c.txs[rng.Intn(nT)].sponsor
			if nT >= 2 && rng.Intn(3) != 0 { // make sure the sponsor has at least two transactions
				for tries := 0; tries < 2; tries++ {
					c.txs[rng.Intn(nT)].sponsor = s
				}
			}
			var fees_ uint64
			for i := range c.txs {
				if c.txs[i].sponsor == s {
					real, _ := c12bBuild(&c.txs[i], i, genTime)
					u, _ := real.Units(hBalance, rules)
					for k := range u {
						fees_ += u[k]
					}
				}
			}
			switch rng.Intn(3) {
			case 0:
				c.bal[s] = fees_ - 1
			case 1:
				c.bal[s] = fees_ / 2
			default:
				c.bal[s] = fees_ - uint64(rng.Intn(int(fees_/2)+1)) - 1
			}
		}
		mx := rng.Intn(5)
		if poor && rng.Intn(3) != 0 {
			mx = 3 // generous maximum: only the balance decides
		}
		switch mx {
		case 0:
			c.max = total
		case 1:
			c.max = total
			k := rng.Intn(fees.FeeDimensions)
			if c.max[k] > 0 {
				c.max[k]--
			}
		case 2:
			c.max = prefix
			for k := range c.max {
				if rng.Intn(3) != 0 {
					c.max[k] = total[k] + uint64(rng.Intn(3))
				}
			}
		case 3:
			for k := range c.max {
				c.max[k] = total[k] * 2
			}
		default:
			for k := range c.max {
				c.max[k] = total[k]/2 + uint64(rng.Intn(int(total[k]/2)+2))
			}
		}
		// the window target differs from the maximum (below, or far above)
		tmode := rng.Intn(3) // all far above the maximum, all below it, or mixed
		for k := range c.target {
			tm := tmode
			if tmode == 2 {
				tm = rng.Intn(3)
			}
			switch tm {
			case 0:
				c.target[k] = c.max[k]*3 + 7
			case 1:
				c.target[k] = c.max[k]/2 + 1
			default:
				c.target[k] = 1 + uint64(rng.Intn(50))
			}
		}
		lines = append(lines, c12bLine(c))
	}
	// two-block chains: non-empty parent, child 0, 1, 9, 10, 11, 30 s (sometimes others) later
	gaps := []uint64{0, 1, 9, 10, 11, 30}
	genTxs := func(n, seq0 int, bt int64) []c12bTx {
		out := make([]c12bTx, 0, n)
		for i := 0; i < n; i++ {
			tx := c12bTx{authCU: uint64(rng.Intn(5)), sponsor: rng.Intn(hNumSponsors)}
			for a, nA := 0, 1+rng.Intn(3); a < nA; a++ {
				tx.acus = append(tx.acus, 1+uint64(rng.Intn(20)))
				var ks []int
				for k := 0; k < hNumActionKeys; k++ {
					if rng.Intn(4) == 0 {
						ks = append(ks, k)
					}
				}
				tx.keys = append(tx.keys, ks)
			}
			real, err := c12bBuild(&tx, seq0+i, bt)
			if err != nil {
				panic(err)
			}
			tx.size = uint64(real.Size())
			out = append(out, tx)
		}
		return out
	}
	total := func(c *c12bCase, txs []c12bTx, seq0 int, bt int64) (t fees.Dimensions) {
		rules := c12bRules(c)
		for i := range txs {
			real, _ := c12bBuild(&txs[i], seq0+i, bt)
			u, err := real.Units(hBalance, rules)
			if err != nil {
				panic(err)
			}
			for k := range t {
				t[k] += u[k]
			}
		}
		return t
	}
	for it, n2 := 0, r.N(120, 2400); it < n2; it++ {
		gap := gaps[it%len(gaps)]
		if rng.Intn(8) == 0 {
			gap = uint64(rng.Intn(40))
		}
		c := &c12bCase{mode: "chain"}
		c.rc = [7]uint64{1 + uint64(rng.Intn(4)), 1 + uint64(rng.Intn(8)), uint64(rng.Intn(4)), uint64(rng.Intn(30)), uint64(rng.Intn(8)), uint64(rng.Intn(15)), uint64(rng.Intn(5))}
		t2 := c12bBlockTime + int64(gap)*1000 + 500
		c.txs = genTxs(1+rng.Intn(3), 0, c12bBlockTime)
		child := genTxs(1+rng.Intn(4), 100, t2)
		pt, ct := total(c, c.txs, 0, c12bBlockTime), total(c, child, 100, t2)
		mode := rng.Intn(4)
		for k := range c.max {
			want := ct[k] // the child exactly fills the block
			switch mode {
			case 1:
				want = ct[k] + pt[k] + uint64(rng.Intn(5)) // generous
			case 2:
				want = ct[k] + uint64(rng.Intn(3))
			case 3:
				if k == it%fees.FeeDimensions && ct[k] > 0 {
					want = ct[k] - 1 // the child exceeds the maximum by one unit
				}
			}
			if want < pt[k] {
				want = pt[k] // the parent must fit
			}
			c.max[k] = want
			c.target[k] = 1 + want/2
		}
		var sb strings.Builder
		fmt.Fprintf(&sb, "blk2 %d %s %s", gap, dimsStr(c.max, " "), dimsStr(c.target, " "))
		for _, v := range c.rc {
			fmt.Fprintf(&sb, " %d", v)
		}
		c12bTxFields(&sb, c.txs)
		c12bTxFields(&sb, child)
		lines = append(lines, sb.String())
	}
	return lines
}
