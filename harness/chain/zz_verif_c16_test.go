package chain_test

import (
	"context"
	"fmt"
	"strconv"
	"strings"
	"sync"
	"testing"
	"time"

	"github.com/ava-labs/avalanchego/utils/logging"

	"github.com/ava-labs/hypersdk/auth"
	"github.com/ava-labs/hypersdk/chain"
	"github.com/ava-labs/hypersdk/crypto/ed25519"
	"github.com/ava-labs/hypersdk/internal/verifh"
	"github.com/ava-labs/hypersdk/internal/workers"
)

// C16: block signature verification (per-type batching + worker pool) succeeds iff every
// transaction's auth verifies over its unsigned bytes.
//
//   facts                                  -> minbatch=<n> batched=<ids> ids=<ed>,<secp>,<bls>
//   block w=<workers> <item>*              item = e|s|b (ed25519|secp256r1|bls) + 1 valid | 0 corrupted signature | 2 other message signed
//        -> <ok|fail|hang> direct=<n> early=<batch sizes handed out by Add> done=<#closures from Done>:<items not handed out early>
//   exec w=<workers> <item>*               the block as a real chain block through chain.NewProcessor(...).Execute
//        (auth.DefaultEngines(), parallel workers; see zz_verif_c16c24_proc_test.go)  -> ok|sigfail|err|hang
//   overlap w=<workers> <b-before-release|b-after-a> A <item>* B <item>*
//        two signature jobs on the SAME worker pool: job A (its last item, marked by a trailing g, of an
//        unbatched type, blocks in Verify until released) is still running when job B is created; B is
//        submitted before A is released, or after A completed        -> A=<ok|fail|hang> B=<ok|fail|hang>
// The block is pushed through the code path of Processor.verifySignatures / waitSignatures:
// workers.NewJob, chain.NewAuthBatch(auth.DefaultEngines()), Add per tx, go Done, job.Wait.

// c16EagerJob is a workers.Job that runs each task when it is submitted (one of the schedules
// the job contract allows; tasks submitted after a failure are skipped like the pool does).
type c16EagerJob struct {
	w    int
	mu   sync.Mutex
	err  error
	done chan struct{}
}

func (j *c16EagerJob) Go(f func() error) {
	j.mu.Lock()
	defer j.mu.Unlock()
	if j.err != nil {
		return
	}
	if err := f(); err != nil {
		j.err = err
	}
}

func (j *c16EagerJob) Done(f func()) {
	close(j.done)
	if f != nil {
		f()
	}
}

func (j *c16EagerJob) Wait() error {
	<-j.done
	j.mu.Lock()
	defer j.mu.Unlock()
	return j.err
}

func (j *c16EagerJob) Workers() int { return j.w }

type c16RecBV struct {
	inner   chain.AuthBatchVerifier
	mu      sync.Mutex
	pending int
	early   []int
	done    int
	total   int
}

func (b *c16RecBV) Add(msg []byte, a chain.Auth) func() error {
	j := b.inner.Add(msg, a)
	b.mu.Lock()
	b.pending++
	b.total++
	if j != nil {
		b.early = append(b.early, b.pending)
		b.pending = 0
	}
	b.mu.Unlock()
	return j
}

func (b *c16RecBV) Done() []func() error {
	js := b.inner.Done()
	b.mu.Lock()
	b.done = len(js)
	b.mu.Unlock()
	return js
}

type c16Engines struct {
	inner auth.Engines
	mu    sync.Mutex
	recs  map[uint8]*c16RecBV
}

func (e *c16Engines) GetAuthBatchVerifier(t uint8, cores int, count int) (chain.AuthBatchVerifier, bool) {
	bv, ok := e.inner.GetAuthBatchVerifier(t, cores, count)
	if !ok {
		return nil, false
	}
	r := &c16RecBV{inner: bv}
	e.mu.Lock()
	e.recs[t] = r
	e.mu.Unlock()
	return r, true
}

// c16Wrap delegates to a real auth; Verify optionally blocks on a gate and reports its result.
type c16Wrap struct {
	chain.Auth
	gate   chan struct{}
	onDone func(error)
}

func (a *c16Wrap) Verify(ctx context.Context, msg []byte) error {
	if a.gate != nil {
		<-a.gate
	}
	err := a.Auth.Verify(ctx, msg)
	if a.onDone != nil {
		a.onDone(err)
	}
	return err
}

type c16Job struct {
	txs  []*chain.Transaction
	job  workers.Job
	bv   *chain.AuthBatch
	want bool
}

func c16WaitJob(j workers.Job, to time.Duration) string {
	res := make(chan error, 1)
	go func() { res <- j.Wait() }()
	select {
	case err := <-res:
		if err == nil {
			return "ok"
		}
		return "fail"
	case <-time.After(to):
		return "hang"
	}
}

// c16Overlap runs two signature jobs on one pool (see the protocol comment).
func c16Overlap(r *verifh.Run, t *testing.T, signer *pvSigner, l string, f []string) string {
	if len(f) < 5 || !strings.HasPrefix(f[1], "w=") || f[3] != "A" {
		return "bad-op"
	}
	w, err := strconv.Atoi(f[1][2:])
	mode := f[2]
	if err != nil || w < 1 || w > 64 || (mode != "b-before-release" && mode != "b-after-a") {
		return "bad-op"
	}
	var aTok, bTok []string
	seenB := false
	for _, it := range f[4:] {
		if it == "B" && !seenB {
			seenB = true
			continue
		}
		if seenB {
			bTok = append(bTok, it)
		} else {
			aTok = append(aTok, it)
		}
	}
	if !seenB {
		return "bad-op"
	}
	okTok := func(it string, allowGate bool) bool {
		if allowGate && len(it) == 3 && it[2] == 'g' && it[0] != 'e' {
			it = it[:2]
		}
		return len(it) == 2 && strings.ContainsRune("esb", rune(it[0])) && strings.ContainsRune("012", rune(it[1]))
	}
	for _, it := range aTok {
		if !okTok(it, true) {
			return "bad-op"
		}
	}
	for _, it := range bTok {
		if !okTok(it, false) {
			return "bad-op"
		}
	}
	gate := make(chan struct{})
	var mu sync.Mutex
	verified, sawInvalid, expect := 0, false, 0
	build := func(toks []string, off int, wrap bool) *c16Job {
		j := &c16Job{want: true}
		for i, it := range toks {
			tx := signer.item(it[:2], off+i, 0)
			if tx.VerifyAuth(context.Background()) != nil {
				j.want = false
			}
			_, hasEngine := auth.DefaultEngines().GetAuthBatchVerifier(tx.Auth.GetTypeID(), 1, 1)
			if wrap && !hasEngine { // a batch engine needs the concrete auth type: such items are not wrapped / gated
				wa := &c16Wrap{Auth: tx.Auth, onDone: func(err error) {
					mu.Lock()
					verified++
					if err != nil {
						sawInvalid = true
					}
					mu.Unlock()
				}}
				if len(it) == 3 {
					wa.gate = gate
					wa.onDone = nil
				} else {
					expect++
				}
				ntx, err := chain.NewTransaction(tx.Base, tx.Actions, wa)
				if err != nil {
					panic(err)
				}
				tx = ntx
			}
			j.txs = append(j.txs, tx)
		}
		return j
	}
	a, b := build(aTok, 0, true), build(bTok, 32, false)
	pool := workers.NewParallel(w, 4)
	start := func(j *c16Job) {
		counts := map[uint8]int{}
		for _, tx := range j.txs {
			counts[tx.Auth.GetTypeID()]++
		}
		job, err := pool.NewJob(len(j.txs))
		if err != nil {
			t.Fatal(err)
		}
		j.job = job
		j.bv = chain.NewAuthBatch(logging.NoLog{}, auth.DefaultEngines(), job, counts)
	}
	submit := func(j *c16Job) {
		for _, tx := range j.txs {
			j.bv.Add(tx.UnsignedBytes(), tx.Auth)
		}
		go j.bv.Done(nil)
	}
	// block A: Execute starts the job ... and returns early; the job keeps running
	start(a)
	submit(a)
	deadline := time.Now().Add(2 * time.Second)
	for time.Now().Before(deadline) {
		mu.Lock()
		settled := verified >= expect || sawInvalid
		mu.Unlock()
		if settled {
			break
		}
		time.Sleep(200 * time.Microsecond)
	}
	time.Sleep(5 * time.Millisecond)
	// block B's job is created while A's is still running
	start(b)
	var ra, rb string
	if mode == "b-before-release" {
		submit(b)
		close(gate)
		ra = c16WaitJob(a.job, 10*time.Second)
		rb = c16WaitJob(b.job, 10*time.Second)
	} else {
		close(gate)
		ra = c16WaitJob(a.job, 10*time.Second)
		submit(b)
		rb = c16WaitJob(b.job, 10*time.Second)
	}
	if ra != "hang" && rb != "hang" {
		go pool.Stop()
	}
	out := fmt.Sprintf("A=%s B=%s", ra, rb)
	r.Emit(l, out)
	for _, x := range []struct {
		name string
		got  string
		want bool
	}{{"A", ra, a.want}, {"B", rb, b.want}} {
		switch {
		case x.got == "hang":
			r.Violation("sig-job-hang", "overlapping jobs: job %s never completed (%s)", x.name, l)
		case (x.got == "ok") != x.want && a.want != b.want:
			r.Violation("job-verdict-leaks-across-jobs", "job %s reported %s but its own auths verify one-by-one: %v (the other job on the pool: A=%v B=%v) %s", x.name, x.got, x.want, a.want, b.want, l)
		case (x.got == "ok") != x.want:
			r.Violation("batch-ne-individual", "overlapping jobs: job %s reported %s, one-by-one all-valid=%v (%s)", x.name, x.got, x.want, l)
		}
	}
	r.Count("overlap:" + mode)
	r.Count(fmt.Sprintf("workers:%d", w))
	r.Distinct(strings.Join(f[1:], " "))
	return ""
}

func TestVerifC16(t *testing.T) {
	r := verifh.Start("C16")
	defer r.Finish()
	lines := r.ReplayLines()
	if lines == nil {
		lines = append(c16Generate(r), pv16Generate(r)...)
	}
	signer := pvNewSigner(t)
	var penv *pv16Env // Processor.Execute environment, built on the first `exec` op
	hangs := 0
	for _, l := range lines {
		f := verifh.Fields(l)
		switch {
		case len(f) == 1 && f[0] == "facts":
			var batched []string
			for _, id := range []uint8{auth.ED25519ID, auth.SECP256R1ID, auth.BLSID} {
				if _, ok := auth.DefaultEngines().GetAuthBatchVerifier(id, 1, 1); ok {
					batched = append(batched, strconv.Itoa(int(id)))
				}
			}
			r.Emit(l, fmt.Sprintf("minbatch=%d batched=%s ids=%d,%d,%d", ed25519.MinBatchSize, strings.Join(batched, ","), auth.ED25519ID, auth.SECP256R1ID, auth.BLSID))
		case len(f) >= 1 && f[0] == "exec":
			if penv == nil {
				penv = newPV16Env(t)
			}
			penv.exec(t, r, l, f)
		case len(f) >= 1 && f[0] == "overlap":
			if out := c16Overlap(r, t, signer, l, f); out != "" {
				r.Emit(l, out)
			}
		case len(f) >= 2 && (f[0] == "block" || f[0] == "blocke") && strings.HasPrefix(f[1], "w="):
			w, err := strconv.Atoi(f[1][2:])
			ok := err == nil && w >= 1 && w <= 64
			for _, it := range f[2:] {
				if !pvItemOK(it) {
					ok = false
				}
			}
			if !ok {
				r.Emit(l, "bad-op")
				continue
			}
			txs := make([]*chain.Transaction, 0, len(f)-2)
			pairs := pvPairs(f[2:])
			for i, it := range f[2:] {
				txs = append(txs, signer.item(it, i, pairs[i]))
			}
			var vios [][2]string
			viol := func(key, format string, a ...any) { vios = append(vios, [2]string{key, fmt.Sprintf(format, a...)}) }
			// oracle: one-by-one verification
			want := true
			ninv := 0
			for _, tx := range txs {
				if !pvRefVerify(tx) {
					want = false
					ninv++
				}
			}
			for i, it := range f[2:] {
				if pvItemValid(it) != (txs[i].VerifyAuth(context.Background()) == nil) {
					viol("test-vector-broken", "item %d (%s): individual verification says %v", i, it, txs[i].VerifyAuth(context.Background()))
				}
			}
			// the code path of Processor.verifySignatures / waitSignatures
			authCounts := map[uint8]int{} // NewExecutionBlock
			for _, tx := range txs {
				authCounts[tx.Auth.GetTypeID()]++
			}
			var pool workers.Workers
			var job workers.Job
			if f[0] == "blocke" {
				// an eager schedule: every task runs at the moment it is submitted
				job = &c16EagerJob{w: w, done: make(chan struct{})}
			} else {
				pool = workers.NewParallel(w, 4)
				job, err = pool.NewJob(len(txs))
				if err != nil {
					t.Fatal(err)
				}
			}
			eng := &c16Engines{inner: auth.DefaultEngines(), recs: map[uint8]*c16RecBV{}}
			bv := chain.NewAuthBatch(logging.NoLog{}, eng, job, authCounts)
			for _, tx := range txs {
				bv.Add(tx.UnsignedBytes(), tx.Auth)
			}
			doneCalled := make(chan struct{})
			go bv.Done(func() { close(doneCalled) })
			res := make(chan error, 1)
			go func() { res <- job.Wait() }()
			to := 10 * time.Second
			if hangs >= 2 {
				to = 1500 * time.Millisecond
			}
			status := ""
			select {
			case err := <-res:
				if err == nil {
					status = "ok"
				} else {
					status = "fail"
				}
				if pool != nil {
					go pool.Stop()
				}
			case <-time.After(to):
				status = "hang"
				hangs++
				viol("sig-job-hang", "signature job of a block with %d invalid of %d signatures, %d workers never completed", ninv, len(txs), w)
			}
			direct := 0
			for _, tx := range txs {
				if _, ok := eng.recs[tx.Auth.GetTypeID()]; !ok {
					direct++
				}
			}
			early, done := "-", "0:0"
			if rb, ok := eng.recs[auth.ED25519ID]; ok {
				rb.mu.Lock()
				if len(rb.early) > 0 {
					ss := make([]string, len(rb.early))
					for i, n := range rb.early {
						ss[i] = strconv.Itoa(n)
					}
					early = strings.Join(ss, ",")
				}
				done = fmt.Sprintf("%d:%d", rb.done, rb.pending)
				rb.mu.Unlock()
			}
			if status != "hang" && (status == "ok") != want {
				viol("batch-ne-individual", "batched/parallel verification says %s but one-by-one verification says all-valid=%v (%s)", status, want, l)
			}
			r.Count(fmt.Sprintf("workers:%d", w))
			r.Count(fmt.Sprintf("invalid:%d", ninv))
			if ninv > 0 || len(txs)%4 == 0 {
				r.Distinct(strings.Join(f[1:], " "))
			}
			r.Emit(l, fmt.Sprintf("%s direct=%d early=%s done=%s", status, direct, early, done))
			for _, v := range vios {
				r.Violation(v[0], "%s", v[1])
			}
			if len(vios) > 0 {
				r.Flush() // keep the finding even if the code under test crashes the process later
			}
		default:
			r.Emit(l, "bad-op")
		}
	}
}

func c16Line(w int, items []string) string {
	return strings.TrimSpace(fmt.Sprintf("block w=%d %s", w, strings.Join(items, " ")))
}

func c16Generate(r *verifh.Run) []string {
	out := []string{"facts",
		// secp256r1 keys with the same X and opposite parity (d and n-d), and a malformed prefix byte: a
		// signature verifies only under exactly the named key, whatever was verified before in this process
		"block w=1 s1 s7 s1", "block w=1 s1 s8 s9",
		"block w=1 s1", "block w=1 s7", "block w=1 s8", "block w=1 s9", "block w=1 s8 s1", "blocke w=2 s1 s1 s1 s8 s7",
		"block w=1", "block w=3 s1", "block w=2 b0", "block w=4 e2",
		// overlapping jobs on one pool: a failure must neither poison the next job nor be wiped by it
		"overlap w=2 b-before-release A s1 s0g B e1 s1",
		"overlap w=2 b-after-a A s1 s0g B s1 b1",
		"overlap w=2 b-before-release A s0 s1g B s1",
		"overlap w=3 b-after-a A b0 s1 s1g B",
		"overlap w=1 b-before-release A s1g B s0",
		"overlap w=4 b-before-release A e1 e1 e1 e1 s1 b2g B e1 e1 e1 e1 e1",
	}
	rep := func(tok string, n int) []string {
		s := make([]string, n)
		for i := range s {
			s[i] = tok
		}
		return s
	}
	// boundary table: ed25519 counts around multiples of the batch size, invalid at chosen positions
	for _, w := range []int{1, 2, 3, 4, 5, 8, 16} {
		for _, n := range []int{1, 3, 4, 5, 7, 8, 9, 12, 4 * w, 4*w + 1, 8*w - 1, 8 * w, 8*w + 1, 8*w + 5} {
			if n > 140 {
				continue
			}
			bs := n / w
			if bs < 4 {
				bs = 4
			}
			out = append(out, c16Line(w, rep("e1", n)))
			for _, p := range []int{0, bs - 1, bs, n - bs, n - 1} {
				if p < 0 || p >= n {
					continue
				}
				it := rep("e1", n)
				it[p] = "e0"
				out = append(out, c16Line(w, it))
			}
		}
	}
	for i := 0; i < r.N(140, 3000); i++ {
		w := 1 + r.RNG.Intn(4)
		if r.RNG.Chance(20) {
			w = 1 + r.RNG.Intn(16)
		}
		mode := []string{"b-before-release", "b-after-a"}[r.RNG.Intn(2)]
		pick := func(set string) string { return string(set[r.RNG.Intn(len(set))]) }
		var a, b []string
		na, nb := r.RNG.Intn(5), r.RNG.Intn(6)
		for j := 0; j < na; j++ {
			a = append(a, pick("ssbe")+"1")
		}
		if na > 0 && r.RNG.Chance(45) {
			p := r.RNG.Intn(na)
			a[p] = a[p][:1] + pick("02")
		}
		gk := "1"
		if r.RNG.Chance(50) {
			gk = pick("02")
		}
		a = append(a, pick("ssb")+gk+"g")
		for j := 0; j < nb; j++ {
			b = append(b, pick("essb")+"1")
		}
		if nb > 0 && r.RNG.Chance(20) {
			p := r.RNG.Intn(nb)
			b[p] = b[p][:1] + pick("02")
		}
		out = append(out, strings.TrimSpace(fmt.Sprintf("overlap w=%d %s A %s B %s", w, mode, strings.Join(a, " "), strings.Join(b, " "))))
	}
	// eager schedule: counts whose remainder modulo the batch size is 1..3, invalid signature in the tail
	for _, w := range []int{2, 3, 4, 8, 16} {
		for _, n := range []int{5, 6, 7, 9, 11, 4*w + 1, 4*w + 2, 8*w + 1, 8*w + 3, 6 * w, 6*w + 1} {
			if n > 140 {
				continue
			}
			out = append(out, "blocke"+c16Line(w, rep("e1", n))[5:])
			for _, p := range []int{n - 1, n - 2, n - 3, 0} {
				if p >= 0 {
					it := rep("e1", n)
					it[p] = "e0"
					out = append(out, "blocke"+c16Line(w, it)[5:])
				}
			}
		}
	}
	for _, w := range []int{1, 2, 4} {
		out = append(out, c16Line(w, []string{"e3"}), c16Line(w, []string{"e4"}),
			c16Line(w, []string{"e1", "e3", "e1", "e1", "e3"}), c16Line(w, []string{"e1", "e1", "e4", "e1", "e1", "e1", "e3", "e1", "e1"}),
			"blocke"+c16Line(w, []string{"e3", "e3", "e3", "e3", "e4"})[5:])
	}
	// ZIP-215 edge vectors: every small-order encoding (canonical and non-canonical) as signer and as R,
	// s = 0; single and batch verification must agree on each of them (alone and inside full batches)
	for a := 0; a < len(pvSmallOrder); a++ {
		out = append(out, c16Line(1+a%3, []string{fmt.Sprintf("e3.%d.%d", a, (a*5+9)%len(pvSmallOrder))}))
		out = append(out, c16Line(2, []string{"e1", "e1", fmt.Sprintf("e3.%d.%d", (a*3+1)%len(pvSmallOrder), a), "e1", "e1"}))
	}
	for i := 0; i < r.N(40, 1500); i++ {
		n := 1 + r.RNG.Intn(9)
		it := rep("e1", n)
		it[r.RNG.Intn(n)] = fmt.Sprintf("e3.%d.%d", r.RNG.Intn(len(pvSmallOrder)), r.RNG.Intn(len(pvSmallOrder)))
		op := "block"
		if r.RNG.Chance(30) {
			op = "blocke"
		}
		out = append(out, op+c16Line(1+r.RNG.Intn(8), it)[5:])
	}
	// BLS signatures offset by opposite group elements (each invalid on its own; their sum is right):
	// pairs at all distances among 2..10 BLS auths, 1..4 workers
	for _, w := range []int{1, 2, 3, 4} {
		for _, n := range []int{2, 4, 5, 8, 10} {
			for _, pq := range [][2]int{{0, 1}, {0, n - 1}, {n / 2, n/2 + 1}, {1, 3}} {
				if pq[0] == pq[1] || pq[1] >= n || pq[0] >= n {
					continue
				}
				it := rep("b1", n)
				it[pq[0]], it[pq[1]] = "b5", "b6"
				out = append(out, c16Line(w, it))
			}
		}
	}
	for i := 0; i < r.N(30, 1000); i++ {
		n := 2 + r.RNG.Intn(10)
		it := make([]string, n)
		for j := range it {
			it[j] = string("bbbes"[r.RNG.Intn(5)]) + "1"
		}
		var bpos []int
		for j := range it {
			if it[j][0] == 'b' {
				bpos = append(bpos, j)
			}
		}
		if len(bpos) >= 2 {
			x := r.RNG.Intn(len(bpos) - 1)
			it[bpos[x]], it[bpos[x+1+r.RNG.Intn(len(bpos)-1-x)]] = "b5", "b6"
		}
		out = append(out, c16Line(1+r.RNG.Intn(4), it))
	}
	for i := 0; i < r.N(60, 2000); i++ {
		// a valid tx of key d (position divisible by 3) first, then txs naming the other parity / a bad prefix
		n := 2 + r.RNG.Intn(6)
		it := make([]string, n)
		for j := range it {
			it[j] = string("sseb"[r.RNG.Intn(4)]) + "1"
		}
		it[0] = "s1"
		for q := 0; q < 1+r.RNG.Intn(2); q++ {
			it[1+r.RNG.Intn(n-1)] = "s" + string("7889"[r.RNG.Intn(4)])
		}
		op := "block"
		if r.RNG.Chance(30) {
			op = "blocke"
		}
		out = append(out, op+c16Line(1+r.RNG.Intn(3), it)[5:])
		if r.RNG.Chance(50) { // and across consecutive blocks
			out = append(out, c16Line(1, []string{"s" + string("789"[r.RNG.Intn(3)])}))
		}
	}
	nrand := r.N(500, 12000)
	for i := 0; i < nrand; i++ {
		w := 1 + r.RNG.Intn(16)
		if r.RNG.Chance(30) {
			w = 1 + r.RNG.Intn(3)
		}
		n := r.RNG.Intn(36)
		if r.RNG.Chance(25) { // exact multiples / neighbours of the batch size
			bs := 4 + r.RNG.Intn(4)
			n = bs*(1+r.RNG.Intn(4)) + r.RNG.Intn(3) - 1
		}
		mix := r.RNG.Intn(4) // 0: mostly ed, 1: uniform, 2: mostly unbatched, 3: ed only
		items := make([]string, n)
		for j := range items {
			var ty byte
			switch mix {
			case 0:
				ty = "eeeeeesb"[r.RNG.Intn(8)]
			case 1:
				ty = "esb"[r.RNG.Intn(3)]
			case 2:
				ty = "essssbbb"[r.RNG.Intn(8)]
			default:
				ty = 'e'
			}
			items[j] = string(ty) + "1"
		}
		ninv := r.RNG.Intn(4)
		if r.RNG.Chance(40) {
			ninv = 0
		}
		for q := 0; q < ninv && n > 0; q++ {
			p := r.RNG.Intn(n)
			if r.RNG.Chance(30) {
				p = []int{0, n - 1, n / 2}[r.RNG.Intn(3)]
			}
			k := "0"
			if r.RNG.Bool() {
				k = "2"
			}
			items[p] = items[p][:1] + k
		}
		if r.RNG.Chance(25) {
			out = append(out, "blocke"+c16Line(w, items)[5:])
		} else {
			out = append(out, c16Line(w, items))
		}
	}
	return out
}
