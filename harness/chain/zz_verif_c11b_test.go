package chain_test

import (
	"context"
	"encoding/binary"
	"errors"
	"fmt"
	"strconv"
	"strings"
	"testing"
	"time"

	"github.com/ava-labs/avalanchego/database/memdb"
	"github.com/ava-labs/avalanchego/ids"
	"github.com/ava-labs/avalanchego/snow/engine/snowman/block"
	"github.com/ava-labs/avalanchego/trace"
	"github.com/ava-labs/avalanchego/utils/logging"
	"github.com/ava-labs/avalanchego/utils/set"
	"github.com/ava-labs/avalanchego/x/merkledb"
	"github.com/prometheus/client_golang/prometheus"

	"github.com/ava-labs/hypersdk/chain"
	"github.com/ava-labs/hypersdk/chain/chaintest"
	"github.com/ava-labs/hypersdk/codec"
	"github.com/ava-labs/hypersdk/genesis"
	"github.com/ava-labs/hypersdk/internal/mempool"
	"github.com/ava-labs/hypersdk/internal/validitywindow"
	"github.com/ava-labs/hypersdk/internal/validitywindow/validitywindowtest"
	"github.com/ava-labs/hypersdk/internal/verifh"
	"github.com/ava-labs/hypersdk/internal/workers"
	"github.com/ava-labs/hypersdk/state/balance"
	"github.com/ava-labs/hypersdk/state/metadata"
)

// C11, builder side: every block the real Builder.BuildBlock hands out (the building node
// treats it as verified) must itself extend its parent header: height+1, timestamp >= parent
// timestamp + MinBlockGap (MinEmptyBlockGap when it ends up with no transactions), not in
// the future, StateRoot = parent post-state root.
//
//	build <T0> <d> <parent height> <MinBlockGap> <MinEmptyBlockGap> <mempool>
//
// parent header/state timestamp = T0-d, T0 = wall clock right before BuildBlock (rewritten
// by the harness on every run). mempool: "-" (empty) or a string over
// v (valid, gets included) b (sponsor cannot pay: dropped) r (repeat: dropped)
// x (misaligned timestamp: dropped). Gaps are seconds-sized and every d keeps >= 1.5 s
// distance from a gap boundary, so scheduling noise cannot flip an outcome.
func TestVerifC11Builder(t *testing.T) {
	r := verifh.Start("C11")
	defer r.Finish()
	lines := r.ReplayLines()
	if lines == nil {
		lines = c11bGenerate(r)
	}
	for _, l := range lines {
		c11bExec(r, l)
	}
}

var (
	c11bMM      = metadata.NewDefaultManager()
	c11bBH      = balance.NewPrefixBalanceHandler([]byte{metadata.DefaultMinimumPrefix})
	c11bSponsor = codec.Address{1, 2, 3}
	c11bBroke   = codec.Address{9, 9, 9}
)

func c11bGenerate(r *verifh.Run) []string {
	var lines []string
	mps := []string{"-", "v", "vv", "b", "bb", "r", "x", "vb", "bv", "brx", "vbrx", "rvxvb"}
	add := func(g, e int64, h uint64) {
		lo, hi := g, e
		if lo > hi {
			lo, hi = hi, lo
		}
		for _, d := range []int64{-5000, 0, lo - 1500, lo + 1500, (lo + hi) / 2, hi - 2000, hi + 1500, 5 * hi} {
			for _, mp := range mps {
				lines = append(lines, fmt.Sprintf("build 0 %d %d %d %d %s", d, h, g, e, mp))
			}
		}
	}
	// corpus first: parent 10 s old (past MinBlockGap 2 s, inside MinEmptyBlockGap 20 s), a
	// mempool whose only transaction is dropped -> no block may come out
	lines = append(lines, "build 0 10000 1 2000 20000 b", "build 0 10000 1 2000 20000 -", "build 0 10000 1 2000 20000 v")
	add(2000, 20000, 1)
	add(20000, 2000, 7) // empty gap below the block gap
	for i := 0; i < r.N(600, 6000); i++ {
		g := int64(2000 + 1000*r.RNG.Intn(4))
		e := int64(12000 + 1000*r.RNG.Intn(20))
		var d int64
		switch r.RNG.Intn(4) {
		case 0:
			d = g - 1500 - int64(r.RNG.Intn(8000))
		case 1, 2:
			d = g + 1500 + int64(r.RNG.Intn(int(e-g-3500)))
		default:
			d = e + 1500 + int64(r.RNG.Intn(100000))
		}
		n := r.RNG.Intn(6)
		mp := make([]byte, n)
		for j := range mp {
			mp[j] = "vbrxbr"[r.RNG.Intn(6)]
		}
		m := string(mp)
		if n == 0 {
			m = "-"
		}
		h := uint64(r.RNG.Intn(1000))
		if r.RNG.Chance(5) {
			h = ^uint64(0) - 1
		}
		lines = append(lines, fmt.Sprintf("build 0 %d %d %d %d %s", d, h, g, e, m))
	}
	return lines
}

func c11bExec(r *verifh.Run, l string) {
	f := verifh.Fields(l)
	bad := func() { r.Emit(l, "bad-op") }
	if len(f) != 7 || f[0] != "build" {
		bad()
		return
	}
	_, e0 := strconv.ParseInt(f[1], 10, 64)
	d, e1 := strconv.ParseInt(f[2], 10, 64)
	ph, e2 := strconv.ParseUint(f[3], 10, 64)
	g, e3 := strconv.ParseInt(f[4], 10, 64)
	e, e4 := strconv.ParseInt(f[5], 10, 64)
	mpSpec := f[6]
	if e0 != nil || e1 != nil || e2 != nil || e3 != nil || e4 != nil || d < -1<<40 || d > 1<<40 {
		bad()
		return
	}
	if mpSpec == "-" {
		mpSpec = ""
	}
	for _, c := range mpSpec {
		if !strings.ContainsRune("vbrx", c) {
			bad()
			return
		}
	}
	ctx := context.Background()
	rules := genesis.NewDefaultRules()
	rules.MinBlockGap, rules.MinEmptyBlockGap = g, e
	rf := &genesis.ImmutableRuleFactory{Rules: rules}

	// everything that does not depend on the clock
	dupSet := set.Set[ids.ID]{}
	vw := &validitywindowtest.MockTimeValidityWindow[*chain.Transaction]{
		OnIsRepeat: func(_ context.Context, _ validitywindow.ExecutionBlock[*chain.Transaction], cs []*chain.Transaction, _ int64) (set.Bits, error) {
			b := set.NewBits()
			for i, tx := range cs {
				if dupSet.Contains(tx.GetID()) {
					b.Add(i)
				}
			}
			return b, nil
		},
	}
	metrics, err := chain.NewMetrics(prometheus.NewRegistry())
	if err != nil {
		panic(err)
	}
	mp := mempool.New[*chain.Transaction](trace.Noop, 4096, 4096)
	cfg := chain.NewDefaultConfig()
	cfg.TargetBuildDuration = time.Hour // the streaming loop ends when the mempool is drained
	builder := chain.NewBuilder(trace.Noop, rf, &logging.NoLog{}, c11bMM, c11bBH, mp, vw, metrics, cfg)
	db, err := merkledb.New(ctx, memdb.New(), merkledb.Config{BranchFactor: merkledb.BranchFactor16, Tracer: trace.Noop})
	if err != nil {
		panic(err)
	}

	// the clock: parent timestamp, transactions, BuildBlock — back to back
	t0 := time.Now().UnixMilli()
	parentTs := t0 - d
	put := func(k, v []byte) {
		if err := db.Put(k, v); err != nil {
			panic(err)
		}
	}
	put(chain.HeightKey(c11bMM.HeightPrefix()), binary.BigEndian.AppendUint64(nil, ph))
	put(chain.TimestampKey(c11bMM.TimestampPrefix()), binary.BigEndian.AppendUint64(nil, uint64(parentTs)))
	put(chain.FeeKey(c11bMM.FeePrefix()), []byte{})
	put(c11bBH.BalanceKey(c11bSponsor), binary.BigEndian.AppendUint64(nil, 1<<62))
	parentRoot, err := db.GetMerkleRoot(ctx)
	if err != nil {
		panic(err)
	}
	pblk, err := chain.NewStatelessBlock(ids.Empty, parentTs, ph, nil, ids.Empty, nil)
	if err != nil {
		panic(err)
	}
	parentOut := &chain.OutputBlock{ExecutionBlock: chain.NewExecutionBlock(pblk), View: db}
	base := t0 - t0%1000 + 10000
	var txs []*chain.Transaction
	for i, c := range mpSpec {
		auth := chaintest.NewDummyTestAuth()
		auth.SponsorAddress, auth.ActorAddress = c11bSponsor, c11bSponsor
		ts := base + int64(i)*1000
		switch c {
		case 'b':
			auth.SponsorAddress, auth.ActorAddress = c11bBroke, c11bBroke
		case 'x':
			ts++
		}
		tx, err := chain.NewTransaction(chain.Base{Timestamp: ts, ChainID: rules.ChainID, MaxFee: 1 << 40}, []chain.Action{}, auth)
		if err != nil {
			panic(err)
		}
		if c == 'r' {
			dupSet.Add(tx.GetID())
		}
		txs = append(txs, tx)
	}
	mp.Add(ctx, txs)
	if mp.Len(ctx) != len(txs) {
		panic("mempool refused transactions")
	}

	type bres struct {
		eb  *chain.ExecutionBlock
		ob  *chain.OutputBlock
		err error
	}
	ch := make(chan bres, 1)
	t0 = time.Now().UnixMilli()
	drift := t0 - (parentTs + d) // time spent since the parent timestamp was fixed
	go func() {
		eb, ob, err := builder.BuildBlock(ctx, &block.Context{}, parentOut)
		ch <- bres{eb, ob, err}
	}()
	var b bres
	select {
	case b = <-ch:
	case <-time.After(30 * time.Second):
		r.Emit(l, "hang")
		r.Violation("build-hangs", "BuildBlock did not return within 30s for %s", l)
		return
	}
	nowAfter := time.Now().UnixMilli()
	if drift+(nowAfter-t0) > 1000 {
		r.Count("slow-build")
	}
	// emitted line: T0 := parentTs + d, so that the model's parent timestamp is exact
	f[1] = strconv.FormatInt(parentTs+d, 10)
	op := strings.Join(f, " ")
	r.Count("mempool:" + c11bMpClass(mpSpec))

	if b.err != nil {
		kind := "other:" + strings.ReplaceAll(b.err.Error(), " ", "_")
		switch {
		case errors.Is(b.err, chain.ErrTimestampTooEarly):
			kind = "early"
		case errors.Is(b.err, chain.ErrNoTxs):
			kind = "notxs"
		}
		r.Emit(op, "err "+kind)
		if b.eb != nil || b.ob != nil {
			r.Violation("builder-error-with-block", "BuildBlock returned an error and a block: %s", l)
		}
		return
	}
	blk := b.eb
	delta := blk.Tmstmp - parentTs
	cls := "ge-empty"
	if delta < g {
		cls = "lt-gap"
	} else if delta < e {
		cls = "lt-empty"
	}
	r.Emit(op, fmt.Sprintf("ok %d %s %d root=%v", blk.Hght, cls, len(blk.StatelessBlock.Txs), blk.StateRoot == parentRoot))
	r.Distinct(fmt.Sprintf("built %s %s g<e=%v", cls, c11bMpClass(mpSpec), g < e))

	// ---- oracle: the four header conditions of the property w.r.t. the parent header ----
	gap := g
	if len(blk.StatelessBlock.Txs) == 0 {
		gap = e
		if g > e { // the code enforces both for an empty block
			gap = g
		}
	}
	if blk.Tmstmp < parentTs+gap {
		r.Violation("builder-emits-block-violating-gap",
			"built block with %d txs is %d ms after its parent; required gap %d (MinBlockGap %d, MinEmptyBlockGap %d), mempool %q",
			len(blk.StatelessBlock.Txs), delta, gap, g, e, f[6])
	}
	if ph != ^uint64(0) && blk.Hght != ph+1 {
		r.Violation("builder-height-not-parent-plus-one", "built height %d on parent height %d", blk.Hght, ph)
	}
	if blk.Tmstmp > nowAfter+chain.FutureBound.Milliseconds() {
		r.Violation("builder-emits-future-block", "built timestamp %d, local time %d", blk.Tmstmp, nowAfter)
	}
	if blk.StateRoot != parentRoot {
		r.Violation("builder-root-mismatch", "built StateRoot %s, parent root %s", blk.StateRoot, parentRoot)
	}
	// and a verifier accepts it on the same parent
	proc := chain.NewProcessor(trace.Noop, &logging.NoLog{}, rf, workers.NewSerial(), chaintest.NewDummyTestAuthEngines(),
		c11bMM, c11bBH, &validitywindowtest.MockTimeValidityWindow[*chain.Transaction]{}, metrics, chain.NewDefaultConfig())
	if _, verr := proc.Execute(ctx, db, chain.NewExecutionBlock(blk.StatelessBlock), true); verr != nil {
		key := "built-block-fails-verification"
		if errors.Is(verr, chain.ErrTimestampTooEarly) || errors.Is(verr, chain.ErrTimestampTooEarlyEmptyBlock) {
			key = "builder-emits-block-violating-gap"
		}
		r.Violation(key, "Processor.Execute rejects the built block on its own parent: %v", verr)
	}
}

func c11bMpClass(s string) string {
	switch {
	case s == "":
		return "empty"
	case !strings.Contains(s, "v"):
		return "all-dropped"
	case strings.Trim(s, "v") == "":
		return "all-valid"
	default:
		return "mixed"
	}
}
