package chain_test

import (
	"context"
	"errors"
	"fmt"
	"sort"
	"strings"
	"testing"
	"time"

	"github.com/ava-labs/avalanchego/database"
	"github.com/ava-labs/avalanchego/ids"
	"github.com/ava-labs/avalanchego/snow/engine/snowman/block"
	"github.com/ava-labs/avalanchego/trace"
	"github.com/ava-labs/avalanchego/utils/logging"
	"github.com/ava-labs/avalanchego/x/merkledb"
	"github.com/prometheus/client_golang/prometheus"

	"github.com/ava-labs/hypersdk/chain"
	"github.com/ava-labs/hypersdk/fees"
	"github.com/ava-labs/hypersdk/genesis"
	"github.com/ava-labs/hypersdk/internal/validitywindow"
	"github.com/ava-labs/hypersdk/internal/verifh"
	"github.com/ava-labs/hypersdk/internal/workers"
)

// C09, chain-level tie: real chain.Transaction / chain.ExecutionBlock (txsSet, Contains),
// real Processor.Execute with isNormalOp = true (VerifyExpiryReplayProtection gate and the
// ErrDuplicateTx wrap), real Accepter.AcceptBlock (-> validityWindow.Accept), real
// PreExecutor.PreExecute (IsRepeat -> ErrDuplicateTx), all over a REAL TimeValidityWindow and a
// small in-memory chain index. Same line protocol as the window-level tie, replayed through the
// same Lean model (driver_C09); timestamps in the ops are relative milliseconds, the harness
// adds a wall-clock base (30 s in the past) so that PreExecutor's time.Now() lies after every
// block and, for the windows used, on the same side of every comparison as the nominal `now`.

type c9cIndex struct{ blocks map[ids.ID]*chain.ExecutionBlock }

func (x *c9cIndex) GetExecutionBlock(_ context.Context, id ids.ID) (validitywindow.ExecutionBlock[*chain.Transaction], error) {
	if b, ok := x.blocks[id]; ok {
		return b, nil
	}
	return nil, database.ErrNotFound
}

type c9cBlock struct {
	n, parent uint64
	rel       int64 // relative timestamp
	height    uint64
	txIDs     []uint64
	exec      *chain.ExecutionBlock
	out       *chain.OutputBlock // set when Execute succeeded (or for genesis)
	dead      bool               // its view can no longer be used (a sibling branch was committed)
}

type c9cWorld struct {
	r       *verifh.Run
	ctx     context.Context
	W       int64
	base    int64
	rules   *genesis.Rules
	metrics *chain.ChainMetrics
	blocks  map[uint64]*c9cBlock
	index   *c9cIndex
	txs     map[uint64]*chain.Transaction
	txExp   map[uint64]int64
	db      merkledb.MerkleDB
	tvw     *validitywindow.TimeValidityWindow[*chain.Transaction]
	proc    *chain.Processor
	acc     *chain.Accepter
	pre     *chain.PreExecutor
	stop    func()
	la      *c9cBlock
	ready   bool // the window reported a full validity window since the last restart
	seqLine int
}

func (w *c9cWorld) tx(n uint64, relExpiry int64) (*chain.Transaction, error) {
	if t, ok := w.txs[n]; ok && w.txExp[n] == relExpiry {
		return t, nil
	}
	t, err := chain.NewTransaction(
		chain.Base{Timestamp: w.base + relExpiry, ChainID: hChainID, MaxFee: ^uint64(0)},
		[]chain.Action{&scriptAction{Nonce: n, Compute: 1, Ops: []hOp{}}},
		&hAuth{Idx: uint32(n), Sponsor_: 0, Compute: 1})
	if err != nil {
		return nil, err
	}
	w.txs[n], w.txExp[n] = t, relExpiry
	return t, nil
}

func (w *c9cWorld) wire() {
	if w.stop != nil {
		w.stop()
	}
	wk := workers.NewSerial()
	w.stop = wk.Stop
	rf := &genesis.ImmutableRuleFactory{Rules: w.rules}
	w.proc = chain.NewProcessor(trace.Noop, &logging.NoLog{}, rf, wk, hAuthEngines{}, hMeta, hBalance, w.tvw, w.metrics,
		chain.Config{TargetBuildDuration: time.Hour, TransactionExecutionCores: 1, StateFetchConcurrency: 1, TargetTxsSize: 1 << 30})
	w.acc = chain.NewAccepter(trace.Noop, w.tvw, w.metrics)
	w.pre = chain.NewPreExecutor(rf, w.tvw, hMeta, hBalance)
}


// c9cMempool streams a fixed batch in the given order (chain.Mempool is an interface; the real
// mempool orders by fee, which would hide the position-dependent behaviour of the builder).
type c9cMempool struct {
	txs      []*chain.Transaction
	restored []*chain.Transaction
}

func (m *c9cMempool) Len(context.Context) int  { return len(m.txs) }
func (m *c9cMempool) Size(context.Context) int { return len(m.txs) }
func (m *c9cMempool) Add(_ context.Context, txs []*chain.Transaction) {
	m.txs = append(m.txs, txs...)
}
func (*c9cMempool) StartStreaming(context.Context)     {}
func (*c9cMempool) PrepareStream(context.Context, int) {}
func (m *c9cMempool) Stream(_ context.Context, n int) []*chain.Transaction {
	if n > len(m.txs) {
		n = len(m.txs)
	}
	out := append([]*chain.Transaction{}, m.txs[:n]...)
	m.txs = m.txs[n:]
	return out
}
func (m *c9cMempool) FinishStreaming(_ context.Context, r []*chain.Transaction) int {
	m.restored = r
	return len(r)
}

func c9cClass(err error) string {
	switch {
	case err == nil:
		return "ok"
	case errors.Is(err, chain.ErrDuplicateTx):
		msg := err.Error()
		switch {
		case strings.Contains(msg, "failed to check for repeats"):
			return "walk-err"
		case strings.Contains(msg, "failed to fetch parent of"):
			return "no-parent"
		case strings.Contains(msg, "duplicates out of"):
			return "dup-anc"
		default:
			return "dup-block"
		}
	}
	if errors.Is(err, validitywindow.ErrTimestampExpired) || errors.Is(err, validitywindow.ErrFutureTimestamp) {
		return "tx-invalid"
	}
	msg := err.Error()
	if len(msg) > 60 {
		msg = msg[:60]
	}
	return "other:" + strings.ReplaceAll(msg, " ", "_")
}

func (w *c9cWorld) chainIDs(b *c9cBlock) map[uint64]uint64 { // tx id -> block, over b and its ancestors
	m := map[uint64]uint64{}
	for cur := b; cur != nil; cur = w.blocks[cur.parent] {
		for _, t := range cur.txIDs {
			m[t] = cur.n
		}
		if cur.height == 0 {
			break
		}
	}
	return m
}

func TestVerifC09Chain(t *testing.T) {
	r := verifh.Start("C09")
	defer r.Finish()
	lines := r.ReplayLines()
	if lines == nil {
		lines = c9cGenerate(r)
	}
	metrics, err := chain.NewMetrics(prometheus.NewRegistry())
	if err != nil {
		t.Fatal(err)
	}
	ctx := context.Background()
	var w *c9cWorld
	defer func() {
		if w != nil && w.stop != nil {
			w.stop()
		}
	}()
	for _, l := range lines {
		f := verifh.Fields(l)
		bad := func() { r.Emit(l, "bad-op") }
		if len(f) == 0 {
			continue
		}
		if f[0] == "reset" {
			if len(f) != 3 {
				bad()
				continue
			}
			if w != nil && w.stop != nil {
				w.stop()
			}
			big := fees.Dimensions{1 << 40, 1 << 40, 1 << 40, 1 << 40, 1 << 40}
			rules := hRules(fees.Dimensions{1, 1, 1, 1, 1}, big, big)
			rules.ValidityWindow = verifh.I(f[1])
			rules.MinBlockGap, rules.MinEmptyBlockGap = 0, 0
			w = &c9cWorld{r: r, ctx: ctx, W: verifh.I(f[1]), rules: rules, metrics: metrics,
				base:   time.Now().UnixMilli()/1000*1000 - 30_000,
				blocks: map[uint64]*c9cBlock{}, index: &c9cIndex{blocks: map[ids.ID]*chain.ExecutionBlock{}},
				txs: map[uint64]*chain.Transaction{}, txExp: map[uint64]int64{}}
			r.Emit(l, "ok")
			w.seqLine = r.Line()
			continue
		}
		if w == nil {
			bad()
			continue
		}
		blk := func(s string) *c9cBlock { return w.blocks[verifh.U(s)] }
		switch {
		case f[0] == "blk" && len(f) >= 6 && len(f) == 6+2*int(verifh.U(f[5])):
			b := &c9cBlock{n: verifh.U(f[1]), parent: verifh.U(f[2]), rel: verifh.I(f[3]), height: verifh.U(f[4])}
			var txs []*chain.Transaction
			ok := true
			for i := 6; i+1 < len(f); i += 2 {
				tx, err := w.tx(verifh.U(f[i]), verifh.I(f[i+1]))
				ok = ok && err == nil
				txs = append(txs, tx)
				b.txIDs = append(b.txIDs, verifh.U(f[i]))
			}
			if !ok {
				bad()
				continue
			}
			if txs == nil {
				txs = []*chain.Transaction{}
			}
			var parentID, root ids.ID
			if b.height == 0 { // genesis: owns the database
				db, err := newParentDB(map[int]uint64{hNumActionKeys: 1 << 60}, 0, w.base+b.rel)
				if err != nil {
					bad()
					continue
				}
				w.db = db
				root, _ = db.GetMerkleRoot(ctx)
			} else if p := w.blocks[b.parent]; p != nil {
				parentID = p.exec.GetID()
				if p.out != nil {
					root, _ = p.out.View.GetMerkleRoot(ctx)
				}
			}
			sb, err := chain.NewStatelessBlock(parentID, w.base+b.rel, b.height, txs, root, &block.Context{})
			if err != nil {
				bad()
				continue
			}
			b.exec = chain.NewExecutionBlock(sb)
			if b.height == 0 {
				b.out = &chain.OutputBlock{ExecutionBlock: b.exec, View: w.db}
			}
			w.blocks[b.n] = b
			r.Emit(l, "ok")
		case f[0] == "idx+" && len(f) == 2 && blk(f[1]) != nil:
			w.index.blocks[blk(f[1]).exec.GetID()] = blk(f[1]).exec
			r.Emit(l, "ok")
		case f[0] == "idx-" && len(f) == 2 && blk(f[1]) != nil:
			delete(w.index.blocks, blk(f[1]).exec.GetID())
			r.Emit(l, "ok")
		case f[0] == "new!" && len(f) == 2 && blk(f[1]) != nil:
			tvw, err := validitywindow.NewTimeValidityWindow[*chain.Transaction](ctx, &logging.NoLog{}, trace.Noop, w.index, blk(f[1]).exec,
				func(int64) int64 { return w.W })
			if err != nil {
				r.Emit(l, "err")
				continue
			}
			w.tvw, w.la, w.ready = tvw, blk(f[1]), false
			w.wire()
			r.Emit(l, "ok")
		case f[0] == "complete!" && len(f) == 2 && blk(f[1]) != nil && w.tvw != nil:
			full := w.tvw.Complete(ctx, blk(f[1]).exec)
			w.ready = full && blk(f[1]) == w.la
			r.Emit(l, fmt.Sprintf("full=%v", full))
		case f[0] == "execute" && len(f) == 2 && blk(f[1]) != nil && w.tvw != nil:
			b := blk(f[1])
			p := w.blocks[b.parent]
			if p == nil || p.out == nil || p.dead {
				bad()
				continue
			}
			out, err := w.proc.Execute(ctx, p.out.View, b.exec, true)
			got := c9cClass(err)
			r.Emit(l, got)
			if err == nil {
				b.out = out
			}
			// oracle: Execute returns an ErrDuplicateTx-class error exactly when the block repeats a
			// tx of itself or of its chain (all txs generated here are valid at their block, so every
			// repeat lies inside the validity window)
			seen := w.chainIDs(p)
			rep := ""
			own := map[uint64]bool{}
			for _, t := range b.txIDs {
				if own[t] {
					rep = fmt.Sprintf("tx %d twice in block %d", t, b.n)
				}
				if a, ok := seen[t]; ok {
					rep = fmt.Sprintf("tx %d of block %d already in ancestor %d", t, b.n, a)
				}
				own[t] = true
			}
			if !w.ready {
				r.Count("oracle:skipped-window-incomplete")
				continue
			}
			r.Count("oracle:execute")
			if rep != "" {
				r.Distinct(fmt.Sprintf("%d/%s", w.seqLine, l))
				r.Count("oracle:repeat-offered")
			}
			switch {
			case rep != "" && err == nil:
				r.ViolationAt("chain-repeat-executed", w.seqLine, r.Line(), "Processor.Execute accepted %s", rep)
			case rep != "" && !errors.Is(err, chain.ErrDuplicateTx) && w.allValid(b):
				r.ViolationAt("chain-repeat-wrong-error", w.seqLine, r.Line(), "Processor.Execute rejected %s with %v, not ErrDuplicateTx", rep, err)
			case rep == "" && errors.Is(err, chain.ErrDuplicateTx) && (got == "dup-anc" || got == "dup-block"):
				r.ViolationAt("chain-false-duplicate", w.seqLine, r.Line(), "Processor.Execute reported a duplicate in block %d that repeats nothing", b.n)
			}
		case f[0] == "accept!" && len(f) == 2 && blk(f[1]) != nil && w.tvw != nil:
			b := blk(f[1])
			if b.out == nil || b.dead || w.la == nil || b.parent != w.la.n {
				bad()
				continue
			}
			if err := w.acc.AcceptBlock(ctx, b.out); err != nil {
				r.Emit(l, "err")
				continue
			}
			b.out.View = w.db // children now build on the database itself
			for _, o := range w.blocks {
				if o.parent == w.la.n && o != b { // sibling branches are rejected: their views are invalid
					w.kill(o)
				}
			}
			w.la = b
			r.Emit(l, "ok")
		case f[0] == "isrepeat" && len(f) == 6 && f[3] == "1" && blk(f[1]) != nil && w.tvw != nil:
			p := blk(f[1])
			tx, err := w.tx(verifh.U(f[4]), verifh.I(f[5]))
			if err != nil || p.out == nil || p.dead {
				bad()
				continue
			}
			im, err := w.db.NewView(ctx, merkledb.ViewChanges{})
			if err != nil {
				bad()
				continue
			}
			perr := w.pre.PreExecute(ctx, p.exec, im, tx)
			out := "ok -"
			switch {
			case errors.Is(perr, chain.ErrDuplicateTx):
				out = "ok 0"
			case perr != nil && strings.Contains(perr.Error(), "failed to fetch parent of ancestor"):
				out = "err -"
			}
			r.Emit(l, out)
			now := time.Now().UnixMilli()
			if _, ok := w.chainIDs(p)[verifh.U(f[4])]; ok && w.ready && w.base+verifh.I(f[5]) >= now && w.base+verifh.I(f[5]) <= now-1000+w.W {
				r.Distinct(fmt.Sprintf("%d/%s", w.seqLine, l))
				if out != "ok 0" {
					r.ViolationAt("chain-preexecutor-repeat-admitted", w.seqLine, r.Line(), "PreExecutor.PreExecute did not return ErrDuplicateTx for tx %s that is on the parent's chain (err=%v)", f[4], perr)
				}
			}
		case f[0] == "build" && len(f) >= 4 && len(f) == 4+2*int(verifh.U(f[3])) && blk(f[1]) != nil && w.tvw != nil:
			// Builder.BuildBlock over a mempool holding exactly this batch, in this order
			p := blk(f[1])
			if p.out == nil || p.dead {
				bad()
				continue
			}
			mp := &c9cMempool{}
			idOf := map[ids.ID]uint64{}
			ok := true
			for i := 4; i+1 < len(f); i += 2 {
				tx, err := w.tx(verifh.U(f[i]), verifh.I(f[i+1]))
				ok = ok && err == nil
				if ok {
					mp.txs = append(mp.txs, tx)
					idOf[tx.GetID()] = verifh.U(f[i])
				}
			}
			if !ok {
				bad()
				continue
			}
			builder := chain.NewBuilder(trace.Noop, &genesis.ImmutableRuleFactory{Rules: w.rules}, &logging.NoLog{}, hMeta, hBalance, mp, w.tvw, w.metrics,
				chain.Config{TargetBuildDuration: time.Hour, TransactionExecutionCores: 1, StateFetchConcurrency: 1, TargetTxsSize: 1 << 30})
			eb, _, berr := builder.BuildBlock(ctx, nil, p.out)
			if berr != nil {
				r.Emit(l, "built-none")
				continue
			}
			var got []uint64
			for _, tx := range eb.StatelessBlock.Txs {
				got = append(got, idOf[tx.GetID()])
			}
			sort.Slice(got, func(i, j int) bool { return got[i] < got[j] })
			var gs []string
			for _, g := range got {
				gs = append(gs, fmt.Sprint(g))
			}
			out := "built -"
			if len(gs) > 0 {
				out = "built " + strings.Join(gs, ",")
			}
			r.Emit(l, out)
			// oracle: the built block contains no tx of the parent's chain and no id twice
			if w.ready {
				onChain := w.chainIDs(p)
				seen := map[uint64]bool{}
				offered := false
				for i := 4; i+1 < len(f); i += 2 {
					if _, ok := onChain[verifh.U(f[i])]; ok {
						offered = true
					}
				}
				if offered {
					r.Distinct(fmt.Sprintf("%d/%s", w.seqLine, l))
					r.Count("oracle:build-repeat-offered")
				}
				for _, g := range got {
					if a, ok := onChain[g]; ok {
						r.ViolationAt("builder-built-repeat", w.seqLine, r.Line(), "Builder.BuildBlock put tx %d into a block on parent %d although ancestor %d already contains it", g, p.n, a)
					}
					if seen[g] {
						r.ViolationAt("builder-built-twice", w.seqLine, r.Line(), "Builder.BuildBlock put tx %d into one block twice", g)
					}
					seen[g] = true
				}
			}
		default:
			bad()
		}
	}
}


// allValid: every tx of the block satisfies ts <= expiry <= ts + W on the exact millisecond timestamp
func (w *c9cWorld) allValid(b *c9cBlock) bool {
	for _, t := range b.txIDs {
		if e := w.txExp[t]; e < b.rel || e > b.rel+w.W {
			return false
		}
	}
	return true
}

func (w *c9cWorld) kill(b *c9cBlock) {
	b.dead = true
	for _, o := range w.blocks {
		if o.parent == b.n && o.height == b.height+1 && !o.dead {
			w.kill(o)
		}
	}
}

// ---- generator ----

func c9cGenerate(r *verifh.Run) []string {
	var out []string
	add := func(format string, a ...any) { out = append(out, fmt.Sprintf(format, a...)) }
	rng := r.RNG
	type gb struct {
		n, parent uint64
		ts        int64
		h         uint64
		txs       []uint64
		verified  bool // expected to have executed successfully
		dead      bool
	}
	// corpus: an expired tx ahead of a tx repeated from an accepted ancestor in one builder batch
	out = append(out, "reset 60000 0", "blk 0 999999 0 0 0", "idx+ 0", "new! 0", "complete! 0",
		"blk 1 0 1000 1 1 1 50000", "idx+ 1", "execute 1", "accept! 1",
		"build 1 30000 3 2 5000 1 50000 3 60000",
		"build 1 30000 4 4 6000 5 7000 1 50000 6 61000")
	// corpus: a tx expiring at second 1000 included at t=500, evicted by a block at t=1100, offered again at t=1500
	out = append(out, "reset 5000 0", "blk 0 999999 0 0 0", "idx+ 0", "new! 0", "complete! 0",
		"blk 1 0 500 1 1 1 1000", "idx+ 1", "execute 1", "accept! 1",
		"blk 2 1 1100 2 0", "idx+ 2", "execute 2", "accept! 2",
		"blk 3 2 1500 3 1 1 1000", "idx+ 3", "execute 3",
		"blk 4 2 1100 3 1 1 1000", "idx+ 4", "execute 4")
	nseq := r.N(120, 3000)
	for q := 0; q < nseq; q++ {
		W := []int64{2000, 5000, 60_000}[rng.Intn(3)]
		add("reset %d 0", W)
		blocks := map[uint64]*gb{0: {n: 0, parent: 999999, verified: true}}
		order := []uint64{0}
		exp := map[uint64]int64{}
		add("blk 0 999999 0 0 0")
		add("idx+ 0")
		add("new! 0")
		add("complete! 0")
		la := uint64(0)
		next, nextTx := uint64(1), uint64(1)
		chainTxs := func(b *gb) []uint64 {
			var l []uint64
			for cur := b; ; cur = blocks[cur.parent] {
				l = append(l, cur.txs...)
				if cur.h == 0 {
					return l
				}
			}
		}
		var kill func(b *gb)
		kill = func(b *gb) {
			b.dead = true
			for _, id := range order {
				if o := blocks[id]; o.parent == b.n && o.h == b.h+1 && !o.dead {
					kill(o)
				}
			}
		}
		steps := 8 + rng.Intn(14)
		for s := 0; s < steps; s++ {
			var tips []*gb // verified, alive, at or above the last accepted block
			for _, id := range order {
				if b := blocks[id]; b.verified && !b.dead && b.h >= blocks[la].h {
					tips = append(tips, b)
				}
			}
			switch k := rng.Intn(100); {
			case k < 55 && len(tips) > 0: // new block on a tip, then Execute
				p := tips[len(tips)-1-rng.Intn(min(3, len(tips)))]
				ts := p.ts + []int64{0, 100, 300, 700, 900, 1000}[rng.Intn(6)]
				b := &gb{n: next, parent: p.n, ts: ts, h: p.h + 1}
				next++
				old := chainTxs(p)
				repeat := false
				for i, nt := 0, rng.Intn(4); i < nt; i++ {
					if len(old) > 0 && rng.Chance(30) { // repeat a tx of the chain if it is still valid at ts
						c := old[rng.Intn(len(old))]
						for k := 0; k < 3; k++ { // prefer txs that expired less than a second ago, or are still valid
							if e := exp[c]; e > ts-1000 && e <= ts+W {
								break
							}
							c = old[rng.Intn(len(old))]
						}
						if e := exp[c]; e > ts-1000 && e <= ts+W {
							b.txs = append(b.txs, c)
							repeat = true
							continue
						}
					}
					if len(b.txs) > 0 && rng.Chance(8) { // repeat within the block
						b.txs = append(b.txs, b.txs[rng.Intn(len(b.txs))])
						repeat = true
						continue
					}
					e := (ts+999)/1000*1000 + int64(rng.Intn(int(W/1000)))*1000 // whole seconds, >= ts
					if rng.Chance(40) {
						e = (ts + 999) / 1000 * 1000 // expires at the next second boundary
					}
					if W == 60_000 && rng.Chance(50) {
						e = (ts+999)/1000*1000 + 40_000 + int64(rng.Intn(15))*1000
					}
					if e == 0 {
						e = 1000
					}
					if e > ts+W {
						e = (ts + W) / 1000 * 1000
					}
					exp[nextTx] = e
					b.txs = append(b.txs, nextTx)
					nextTx++
				}
				b.verified = !repeat
				blocks[b.n] = b
				order = append(order, b.n)
				var sb strings.Builder
				for _, t := range b.txs {
					fmt.Fprintf(&sb, " %d %d", t, exp[t])
				}
				add("blk %d %d %d %d %d%s", b.n, b.parent, b.ts, b.h, len(b.txs), sb.String())
				add("idx+ %d", b.n)
				add("execute %d", b.n)
			case k < 75: // accept a verified child of the last accepted block (Accepter.AcceptBlock)
				var kids []*gb
				for _, id := range order {
					if b := blocks[id]; b.parent == la && b.verified && !b.dead && b.n != 0 {
						kids = append(kids, b)
					}
				}
				if len(kids) == 0 {
					continue
				}
				b := kids[rng.Intn(len(kids))]
				add("accept! %d", b.n)
				for _, o := range kids {
					if o != b {
						kill(o)
					}
				}
				la = b.n
				if rng.Chance(40) { // prune blocks below the last accepted one from the index
					for _, id := range order {
						if o := blocks[id]; o.h < b.h && rng.Chance(70) {
							add("idx- %d", o.n)
						}
					}
				}
			case k < 86 && len(tips) > 0: // mempool admission (PreExecutor): one tx against a tip
				p := tips[rng.Intn(len(tips))]
				old := chainTxs(p)
				if len(old) > 0 && rng.Chance(60) {
					c := old[rng.Intn(len(old))]
					add("isrepeat %d 30000 1 %d %d", p.n, c, exp[c])
				} else {
					exp[nextTx] = 31000
					add("isrepeat %d 30000 1 %d 31000", p.n, nextTx)
					nextTx++
				}
			case k < 96 && len(tips) > 0 && W == 60_000: // builder: one mempool batch with expired / repeated / fresh txs in any order
				p := tips[rng.Intn(len(tips))]
				old := chainTxs(p)
				var live []uint64 // chain txs still executable at the build time (relative now ~ 30000)
				for _, c := range old {
					if exp[c] >= 40_000 {
						live = append(live, c)
					}
				}
				var sb strings.Builder
				n := 0
				usedInBatch := map[uint64]bool{}
				for i, m := 0, 2+rng.Intn(5); i < m; i++ {
					switch x := rng.Intn(10); {
					case x < 3: // expired while waiting in the mempool
						exp[nextTx] = int64(1+rng.Intn(20)) * 1000
						fmt.Fprintf(&sb, " %d %d", nextTx, exp[nextTx])
						nextTx++
						n++
					case x < 6 && len(live) > 0: // already on the chain (restored after a reorg)
						c := live[rng.Intn(len(live))]
						if usedInBatch[c] {
							continue
						}
						usedInBatch[c] = true
						fmt.Fprintf(&sb, " %d %d", c, exp[c])
						n++
					default: // fresh
						exp[nextTx] = int64(40+rng.Intn(40)) * 1000
						fmt.Fprintf(&sb, " %d %d", nextTx, exp[nextTx])
						nextTx++
						n++
					}
				}
				add("build %d 30000 %d%s", p.n, n, sb.String())
			default: // restart: fresh window over the (possibly pruned) index
				add("idx+ %d", la)
				add("new! %d", la)
				add("complete! %d", la)
			}
		}
	}
	return out
}
