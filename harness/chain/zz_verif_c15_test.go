package chain_test

import (
	"bytes"
	"context"
	"encoding/binary"
	"fmt"
	"math"
	"testing"

	"github.com/ava-labs/avalanchego/ids"
	"github.com/ava-labs/avalanchego/snow/engine/snowman/block"

	"github.com/ava-labs/hypersdk/chain"
	"github.com/ava-labs/hypersdk/chain/chaintest"
	"github.com/ava-labs/hypersdk/codec"
	"github.com/ava-labs/hypersdk/fees"
	"github.com/ava-labs/hypersdk/internal/verifh"
	"github.com/ava-labs/hypersdk/state"
	"github.com/ava-labs/hypersdk/utils"
)

// C15: every accepted byte string (tx, block, batch, result, execution results, executed
// block) decodes to a value that re-encodes to the identical bytes; ID = hash of the bytes; the
// signed message is the encoding without the auth field.
//
// Line protocol: `<kind> <hex>`, kind in tx|block|batch|result|results|xblock|action|auth.
// Output: `err` or `ok <decoded fields> re=<hex of the re-encoding built from the decoded
// structured value with the public constructors>`.

// c15VarAuth is a harness-defined auth type with a variable-length payload, so that the auth
// field of parsed transactions takes every length-prefix width (1, 2 and 3 byte varints).
type c15VarAuth struct{ payload []byte }

const c15VarAuthID = 1

func (*c15VarAuth) GetTypeID() uint8                      { return c15VarAuthID }
func (*c15VarAuth) ValidRange(chain.Rules) (int64, int64) { return -1, -1 }
func (*c15VarAuth) ComputeUnits(chain.Rules) uint64       { return 1 }
func (*c15VarAuth) Verify(context.Context, []byte) error  { return nil }
func (*c15VarAuth) Actor() codec.Address                  { return codec.Address{7} }
func (*c15VarAuth) Sponsor() codec.Address                { return codec.Address{7} }
func (a *c15VarAuth) Bytes() []byte                       { return append([]byte{c15VarAuthID}, a.payload...) }

func unmarshalC15VarAuth(b []byte) (chain.Auth, error) {
	if len(b) == 0 || b[0] != c15VarAuthID {
		return nil, fmt.Errorf("not a var auth")
	}
	return &c15VarAuth{payload: append([]byte{}, b[1:]...)}, nil
}

// c15Factory "signs" with a fixed auth (any registered auth type).
type c15Factory struct{ a chain.Auth }

func (f *c15Factory) Sign([]byte) (chain.Auth, error) { return f.a, nil }
func (f *c15Factory) MaxUnits() (uint64, uint64)       { return uint64(len(f.a.Bytes())), 1 }
func (f *c15Factory) Address() codec.Address           { return f.a.Actor() }

type c15 struct {
	r      *verifh.Run
	parser *chain.TxTypeParser
	seen   map[string]string // (unsigned bytes, auth bytes) -> accepted encoding
}

func TestVerifC15(t *testing.T) {
	r := verifh.Start("C15")
	defer r.Finish()
	h := &c15{r: r, parser: chaintest.NewTestParser(), seen: map[string]string{}}
	if err := h.parser.AuthRegistry.Register(&c15VarAuth{}, unmarshalC15VarAuth); err != nil {
		t.Fatal(err)
	}

	lines := r.ReplayLines()
	if lines == nil {
		lines = h.generate()
	}
	for _, l := range lines {
		f := verifh.Fields(l)
		if len(f) == 3 && (f[0] == "rtx" || f[0] == "rblock" || f[0] == "rbatch") {
			h.opResign(l, f)
			continue
		}
		if len(f) != 2 {
			r.Emit(l, "bad-op")
			continue
		}
		b, err := verifh.UnHex(f[1])
		if err != nil {
			r.Emit(l, "bad-op")
			continue
		}
		var out string
		func() {
			defer func() {
				if p := recover(); p != nil {
					out = "panic"
					r.Emit(l, out)
					r.Violation("decoder-panic", "%s panics: %v", f[0], p)
				}
			}()
			switch f[0] {
			case "tx":
				h.opTx(l, b)
			case "block":
				h.opBlock(l, b)
			case "batch":
				h.opBatch(l, b)
			case "result":
				h.opResult(l, b)
			case "results":
				h.opResults(l, b)
			case "xblock":
				h.opXBlock(l, b)
			case "action":
				h.opAction(l, b)
			case "auth":
				h.opAuth(l, b)
			default:
				r.Emit(l, "bad-op")
			}
		}()
	}
}

// ------------------------------------------------------------------ ops + oracle

func rebuildTx(tx *chain.Transaction) *chain.Transaction {
	re, err := chain.NewTransaction(tx.Base, tx.Actions, tx.Auth)
	if err != nil {
		panic(err)
	}
	return re
}

// trailingClass names the class of a re-encoding mismatch: a registered parser accepted
// `value ++ junk` (the raw entry strictly extends the parsed value's Bytes()).
func (h *c15) trailingClass(raw []byte) string {
	stx := &chain.SerializeTx{}
	if err := stx.UnmarshalCanoto(raw); err != nil {
		return ""
	}
	for _, ab := range stx.Actions {
		if a, err := h.parser.ParseAction(ab); err == nil {
			if re := a.Bytes(); len(re) < len(ab) && bytes.HasPrefix(ab, re) {
				return "action-trailing-bytes"
			}
		}
	}
	if a, err := h.parser.ParseAuth(stx.Auth); err == nil {
		if re := a.Bytes(); len(re) < len(stx.Auth) && bytes.HasPrefix(stx.Auth, re) {
			return "auth-trailing-bytes"
		}
	}
	return ""
}

func (h *c15) txClass(txs []*chain.Transaction, dflt string) string {
	for _, tx := range txs {
		if tx == nil {
			continue
		}
		if c := h.trailingClass(tx.Bytes()); c != "" {
			return c
		}
	}
	return dflt
}

func (h *c15) checkTx(b []byte, tx *chain.Transaction, re *chain.Transaction) {
	r := h.r
	cls := h.txClass([]*chain.Transaction{tx}, "")
	key := func(d string) string {
		if cls != "" {
			return cls
		}
		return d
	}
	if !bytes.Equal(re.Bytes(), b) {
		r.Violation(key("tx-reencode-differs"), "accepted tx %x re-encodes as %x", b, re.Bytes())
	}
	if !bytes.Equal(tx.Bytes(), b) || tx.GetID() != utils.ToID(b) || tx.Size() != len(b) {
		r.Violation("tx-id-not-hash", "tx %x: cached bytes/id/size are not those of the input", b)
	}
	if re.GetID() != tx.GetID() && bytes.Equal(re.Bytes(), b) {
		r.Violation("tx-id-not-hash", "tx %x: equal bytes, different ids", b)
	}
	// the message the signature covers is the encoding of the body without the auth field
	body := chain.NewTxData(tx.Base, tx.Actions)
	if !bytes.Equal(body.UnsignedBytes(), tx.UnsignedBytes()) {
		r.Violation(key("unsigned-not-body"), "tx %x: unsigned bytes %x are not the body encoding %x", b, tx.UnsignedBytes(), body.UnsignedBytes())
	}
	authBytes := tx.Auth.Bytes()
	want := append([]byte{}, tx.UnsignedBytes()...)
	if len(authBytes) > 0 {
		want = append(want, 0x1a)
		want = binary.AppendUvarint(want, uint64(len(authBytes)))
		want = append(want, authBytes...)
	}
	if !bytes.Equal(want, b) {
		r.Violation(key("signed-not-body-plus-auth"), "tx %x is not unsigned ++ auth field (%x)", b, want)
	}
	// no two distinct accepted encodings share body and signature
	k := string(tx.UnsignedBytes()) + "|" + string(authBytes)
	if prev, ok := h.seen[k]; ok && prev != string(b) {
		r.Violation(key("two-encodings-one-message"), "%x and %x share body and auth", []byte(prev), b)
	}
	h.seen[k] = string(b)
}

// checkInner applies the transaction oracle to transactions parsed inside a block / batch.
func (h *c15) checkInner(txs []*chain.Transaction) {
	for _, tx := range txs {
		if tx != nil {
			h.checkTx(tx.Bytes(), tx, rebuildTx(tx))
		}
	}
}

func (h *c15) opTx(l string, b []byte) {
	tx, err := chain.UnmarshalTx(b, h.parser)
	if err != nil {
		h.r.Emit(l, "err")
		return
	}
	re := rebuildTx(tx)
	h.r.Emit(l, fmt.Sprintf("ok ts=%d chain=%s fee=%d nact=%d re=%s un=%s", tx.Base.Timestamp,
		verifh.Hex(tx.Base.ChainID[:]), tx.Base.MaxFee, len(tx.Actions), verifh.Hex(re.Bytes()), verifh.Hex(tx.UnsignedBytes())))
	h.r.Distinct(l)
	h.r.Count(fmt.Sprintf("tx-actions:%d", len(tx.Actions)))
	h.checkTx(b, tx, re)
}

func rebuildTxs(txs []*chain.Transaction) []*chain.Transaction {
	out := make([]*chain.Transaction, len(txs))
	for i, tx := range txs {
		out[i] = rebuildTx(tx)
	}
	return out
}

func rebuildBlock(blk *chain.StatelessBlock) *chain.StatelessBlock {
	re, err := chain.NewStatelessBlock(blk.Prnt, blk.Tmstmp, blk.Hght, rebuildTxs(blk.Txs), blk.StateRoot, blk.BlockContext)
	if err != nil {
		panic(err)
	}
	return re
}

func (h *c15) opBlock(l string, b []byte) {
	blk, err := chain.UnmarshalBlock(b, h.parser)
	if err != nil {
		h.r.Emit(l, "err")
		return
	}
	re := rebuildBlock(blk)
	ctx := uint64(0)
	if blk.BlockContext != nil {
		ctx = blk.BlockContext.PChainHeight
	}
	h.r.Emit(l, fmt.Sprintf("ok prnt=%s ts=%d h=%d ctx=%d ntx=%d root=%s re=%s", verifh.Hex(blk.Prnt[:]), blk.Tmstmp,
		blk.Hght, ctx, len(blk.Txs), verifh.Hex(blk.StateRoot[:]), verifh.Hex(re.GetBytes())))
	h.r.Distinct(l)
	h.r.Count(fmt.Sprintf("block-txs:%d", len(blk.Txs)))
	if !bytes.Equal(re.GetBytes(), b) {
		h.r.Violation(h.txClass(blk.Txs, "block-reencode-differs"), "accepted block %x re-encodes as %x", b, re.GetBytes())
	}
	if !bytes.Equal(blk.GetBytes(), b) || blk.GetID() != utils.ToID(b) {
		h.r.Violation("block-id-not-hash", "block %x: cached bytes/id are not those of the input", b)
	}
	h.checkInner(blk.Txs)
}

func (h *c15) opBatch(l string, b []byte) {
	s := &chain.BatchedTransactionSerializer{Parser: h.parser}
	txs, err := s.Unmarshal(b)
	if err != nil {
		h.r.Emit(l, "err")
		return
	}
	re := s.Marshal(rebuildTxs(txs))
	h.r.Emit(l, fmt.Sprintf("ok ntx=%d re=%s", len(txs), verifh.Hex(re)))
	h.r.Distinct(l)
	if !bytes.Equal(re, b) {
		h.r.Violation(h.txClass(txs, "batch-reencode-differs"), "accepted batch %x re-encodes as %x", b, re)
	}
	h.checkInner(txs)
}

func rebuildResult(r *chain.Result) *chain.Result {
	if r == nil {
		return nil
	}
	return &chain.Result{Success: r.Success, Error: r.Error, Outputs: r.Outputs, Units: r.Units, Fee: r.Fee}
}

func (h *c15) opResult(l string, b []byte) {
	res, err := chain.UnmarshalResult(b)
	if err != nil {
		h.r.Emit(l, "err")
		return
	}
	re := rebuildResult(res).Marshal()
	h.r.Emit(l, fmt.Sprintf("ok succ=%t nout=%d fee=%d re=%s", res.Success, len(res.Outputs), res.Fee, verifh.Hex(re)))
	h.r.Distinct(l)
	if !bytes.Equal(re, b) {
		h.r.Violation("result-reencode-differs", "accepted result %x re-encodes as %x", b, re)
	}
}

func rebuildResults(er *chain.ExecutionResults) *chain.ExecutionResults {
	if er == nil {
		return nil
	}
	rs := make([]*chain.Result, len(er.Results))
	for i, r := range er.Results {
		rs[i] = rebuildResult(r)
	}
	return chain.NewExecutionResults(rs, er.UnitPrices, er.UnitsConsumed)
}

func (h *c15) opResults(l string, b []byte) {
	er, err := chain.ParseExecutionResults(b)
	if err != nil {
		h.r.Emit(l, "err")
		return
	}
	re := rebuildResults(er).Marshal()
	h.r.Emit(l, fmt.Sprintf("ok n=%d re=%s", len(er.Results), verifh.Hex(re)))
	h.r.Distinct(l)
	if !bytes.Equal(re, b) {
		h.r.Violation("results-reencode-differs", "accepted execution results %x re-encode as %x", b, re)
	}
}

func (h *c15) opXBlock(l string, b []byte) {
	eb, err := chain.UnmarshalExecutedBlock(b, h.parser)
	if err != nil {
		h.r.Emit(l, "err")
		return
	}
	re := &chain.ExecutedBlock{ExecutionResults: rebuildResults(eb.ExecutionResults)}
	nb, nr := 0, 0
	var txs []*chain.Transaction
	if eb.Block != nil {
		re.Block = rebuildBlock(eb.Block)
		txs = eb.Block.Txs
		nb = 1
	}
	if eb.ExecutionResults != nil {
		nr = 1
	}
	reb, _ := re.Marshal()
	h.r.Emit(l, fmt.Sprintf("ok blk=%d res=%d re=%s", nb, nr, verifh.Hex(reb)))
	h.r.Distinct(l)
	if !bytes.Equal(reb, b) {
		h.r.Violation(h.txClass(txs, "xblock-reencode-differs"), "accepted executed block %x re-encodes as %x", b, reb)
	}
	h.checkInner(txs)
	if eb.Block != nil && eb.Block.GetID() != utils.ToID(eb.Block.GetBytes()) {
		h.r.Violation("block-id-not-hash", "block inside executed block %x", b)
	}
}

// opResign: parse a tx / block / batch, call the public API on the parsed value — above all
// Sign() on each parsed transaction's data with another auth factory — and then look at the parsed
// value again: its bytes, size and ID must still be the accepted input and its hash
// (`accepted-bytes-mutated`), and every re-signed transaction must be the canonical encoding of the
// same body with the new auth (`resign-not-canonical`).
func (h *c15) opResign(l string, f []string) {
	in, err1 := verifh.UnHex(f[1])
	ab, err2 := verifh.UnHex(f[2])
	if err1 != nil || err2 != nil {
		h.r.Emit(l, "bad-op")
		return
	}
	out := ""
	defer func() {
		if p := recover(); p != nil {
			h.r.Emit(l, "panic")
			h.r.Violation("decoder-panic", "%s panics: %v", f[0], p)
		}
	}()
	orig := append([]byte{}, in...) // pristine copy of the accepted input
	newAuth, aerr := h.parser.ParseAuth(ab)
	var (
		txs    []*chain.Transaction
		cur    func() []byte
		curID  func() ids.ID
		perr   error
		blk    *chain.StatelessBlock
		single *chain.Transaction
	)
	switch f[0] {
	case "rtx":
		single, perr = chain.UnmarshalTx(in, h.parser)
		if perr == nil {
			txs = []*chain.Transaction{single}
			cur, curID = single.Bytes, single.GetID
		}
	case "rblock":
		blk, perr = chain.UnmarshalBlock(in, h.parser)
		if perr == nil {
			txs = blk.Txs
			cur, curID = blk.GetBytes, blk.GetID
		}
	default:
		s := &chain.BatchedTransactionSerializer{Parser: h.parser}
		txs, perr = s.Unmarshal(in)
		if perr == nil {
			t2 := txs
			cur = func() []byte { return s.Marshal(t2) }
		}
	}
	if perr != nil || aerr != nil {
		h.r.Emit(l, "err")
		return
	}
	// snapshot of every parsed transaction before any further API call
	type snap struct {
		bytes []byte
		id    ids.ID
	}
	snaps := make([]snap, len(txs))
	for i, tx := range txs {
		snaps[i] = snap{append([]byte{}, tx.Bytes()...), tx.GetID()}
	}
	fac := &c15Factory{a: newAuth}
	var rs []byte
	for _, tx := range txs {
		_, _ = tx.MarshalJSON()
		_ = tx.UnsignedBytes()
		resigned, err := tx.TransactionData.Sign(fac)
		if err != nil {
			panic(err)
		}
		want, _ := chain.NewTransaction(tx.Base, tx.Actions, newAuth)
		if !bytes.Equal(resigned.Bytes(), want.Bytes()) || resigned.GetID() != utils.ToID(resigned.Bytes()) {
			h.r.Violation("resign-not-canonical", "re-signed parsed tx is %x, want %x", resigned.Bytes(), want.Bytes())
		}
		rs = append(rs, resigned.Bytes()...)
	}
	out = fmt.Sprintf("ok cur=%s rs=%s", verifh.Hex(cur()), verifh.Hex(rs))
	h.r.Emit(l, out)
	h.r.Distinct(l)
	// the oracle: the parsed values still are the accepted input
	if !bytes.Equal(cur(), orig) {
		h.r.Violation("accepted-bytes-mutated", "%s: after Sign() on the parsed tx data the parsed value's bytes are %x, accepted input was %x", f[0], cur(), orig)
	}
	if curID != nil && curID() != utils.ToID(orig) {
		h.r.Violation("accepted-bytes-mutated", "%s: id is no longer the hash of the accepted input %x", f[0], orig)
	}
	for i, tx := range txs {
		if !bytes.Equal(tx.Bytes(), snaps[i].bytes) || tx.GetID() != snaps[i].id || tx.GetID() != utils.ToID(tx.Bytes()) || tx.Size() != len(tx.Bytes()) {
			h.r.Violation("accepted-bytes-mutated", "%s: parsed tx %d changed from %x to %x (id %s)", f[0], i, snaps[i].bytes, tx.Bytes(), tx.GetID())
		}
	}
	if !bytes.Equal(in, orig) {
		h.r.Violation("accepted-bytes-mutated", "%s: the caller's input buffer was overwritten", f[0])
	}
}

func (h *c15) opAction(l string, b []byte) {
	a, err := h.parser.ParseAction(b)
	if err != nil {
		h.r.Emit(l, "err")
		return
	}
	re := a.Bytes()
	h.r.Emit(l, "ok re="+verifh.Hex(re))
	h.r.Distinct(l)
	if !bytes.Equal(re, b) {
		k := "action-noncanonical"
		if len(re) < len(b) && bytes.HasPrefix(b, re) {
			k = "action-trailing-bytes"
		}
		h.r.Violation(k, "ParseAction accepts %x, whose Bytes() is %x", b, re)
	}
}

func (h *c15) opAuth(l string, b []byte) {
	a, err := h.parser.ParseAuth(b)
	if err != nil {
		h.r.Emit(l, "err")
		return
	}
	re := a.Bytes()
	h.r.Emit(l, "ok re="+verifh.Hex(re))
	h.r.Distinct(l)
	if !bytes.Equal(re, b) {
		k := "auth-noncanonical"
		if len(re) < len(b) && bytes.HasPrefix(b, re) {
			k = "auth-trailing-bytes"
		}
		h.r.Violation(k, "ParseAuth accepts %x, whose Bytes() is %x", b, re)
	}
}

// ------------------------------------------------------------------ generators

func (h *c15) rng() *verifh.RNG { return h.r.RNG }

func (h *c15) randID() ids.ID {
	g := h.rng()
	var id ids.ID
	switch g.Intn(5) {
	case 0: // zero
	case 1:
		id[31] = 1
	case 2:
		id[0] = byte(1 + g.Intn(255))
	default:
		copy(id[:], g.Bytes(32))
	}
	return id
}

func (h *c15) randI64() int64 {
	g := h.rng()
	switch g.Intn(8) {
	case 0:
		return 0
	case 1:
		return -1
	case 2:
		return math.MinInt64
	case 3:
		return 1<<63 - 1
	case 4:
		return int64(1_700_000_000_000 + g.Intn(1_000_000_000))
	case 5:
		return -int64(g.Pick64() >> 1)
	default:
		return int64(g.Pick64())
	}
}

func (h *c15) randBase() chain.Base {
	g := h.rng()
	mf := g.Pick64()
	if g.Chance(15) {
		mf = 0
	}
	return chain.Base{Timestamp: h.randI64(), ChainID: h.randID(), MaxFee: mf}
}

func (h *c15) smallBytes(max int) []byte { return h.rng().Bytes(h.rng().Intn(max + 1)) }

func (h *c15) randAction() *chaintest.TestAction {
	g := h.rng()
	a := &chaintest.TestAction{
		NumComputeUnits:              g.Pick64(),
		SpecifiedStateKeys:           []string{},
		SpecifiedStateKeyPermissions: []state.Permissions{},
		ReadKeys:                     [][]byte{},
		WriteKeys:                    [][]byte{},
		WriteValues:                  [][]byte{},
		ExecuteErr:                   g.Chance(20),
		Nonce:                        g.Pick64(),
		Start:                        h.randI64(),
		End:                          h.randI64(),
	}
	for i := g.Intn(3); i > 0; i-- {
		a.SpecifiedStateKeys = append(a.SpecifiedStateKeys, string(h.smallBytes(5)))
		a.SpecifiedStateKeyPermissions = append(a.SpecifiedStateKeyPermissions, state.Permissions(g.Intn(256)))
	}
	for i := g.Intn(3); i > 0; i-- {
		a.ReadKeys = append(a.ReadKeys, h.smallBytes(4))
	}
	for i := g.Intn(3); i > 0; i-- {
		a.WriteKeys = append(a.WriteKeys, h.smallBytes(4))
		a.WriteValues = append(a.WriteValues, h.smallBytes(6))
	}
	if g.Chance(5) { // an action of >= 128 bytes: two-byte length prefix
		a.WriteValues = append(a.WriteValues, g.Bytes(100+g.Intn(60)))
	}
	return a
}

func (h *c15) randAuth() *chaintest.TestAuth {
	g := h.rng()
	a := &chaintest.TestAuth{NumComputeUnits: g.Pick64(), ShouldErr: g.Chance(20), Start: h.randI64(), End: h.randI64()}
	copy(a.ActorAddress[:], g.Bytes(33))
	if g.Bool() {
		a.SponsorAddress = a.ActorAddress
	} else {
		copy(a.SponsorAddress[:], g.Bytes(33))
	}
	return a
}

func (h *c15) randTx() *chain.Transaction {
	g := h.rng()
	n := g.Intn(4)
	if g.Chance(70) && n == 0 {
		n = 1
	}
	actions := make([]chain.Action, n)
	for i := range actions {
		actions[i] = h.randAction()
	}
	var au chain.Auth = h.randAuth()
	if g.Chance(30) {
		au = h.randVarAuth()
	}
	tx, err := chain.NewTransaction(h.randBase(), actions, au)
	if err != nil {
		panic(err)
	}
	return tx
}

// randVarAuth: total auth sizes around the varint boundaries of the length prefix
func (h *c15) randVarAuth() *c15VarAuth {
	g := h.rng()
	sizes := []int{1, 2, 126, 127, 128, 129, 130, 145, 200, 300}
	n := sizes[g.Intn(len(sizes))]
	if g.Chance(2) {
		n = 16382 + g.Intn(5)
	}
	return &c15VarAuth{payload: g.Bytes(n - 1)}
}

func (h *c15) randTxs(max int) []*chain.Transaction {
	n := h.rng().Intn(max + 1)
	txs := make([]*chain.Transaction, n)
	for i := range txs {
		txs[i] = h.randTx()
	}
	return txs
}

func (h *c15) randBlock() *chain.StatelessBlock {
	g := h.rng()
	var ctx *block.Context
	switch g.Intn(4) {
	case 0:
		ctx = &block.Context{PChainHeight: g.Pick64()}
	case 1:
		ctx = &block.Context{}
	}
	blk, err := chain.NewStatelessBlock(h.randID(), h.randI64(), g.Pick64(), h.randTxs(3), h.randID(), ctx)
	if err != nil {
		panic(err)
	}
	return blk
}

func (h *c15) randDims() fees.Dimensions {
	g := h.rng()
	var d fees.Dimensions
	if g.Chance(20) {
		return d
	}
	for i := range d {
		if g.Chance(70) {
			d[i] = g.Pick64()
		}
	}
	return d
}

func (h *c15) randResult() *chain.Result {
	g := h.rng()
	r := &chain.Result{Success: g.Bool(), Error: h.smallBytes(5), Units: h.randDims(), Fee: g.Pick64()}
	if g.Chance(30) {
		r.Fee = 0
	}
	for i := g.Intn(3); i > 0; i-- {
		r.Outputs = append(r.Outputs, h.smallBytes(4))
	}
	return r
}

func (h *c15) randResults() *chain.ExecutionResults {
	g := h.rng()
	var rs []*chain.Result
	for i := g.Intn(4); i > 0; i-- {
		switch g.Intn(6) {
		case 0:
			rs = append(rs, nil)
		case 1:
			rs = append(rs, &chain.Result{})
		default:
			rs = append(rs, h.randResult())
		}
	}
	return chain.NewExecutionResults(rs, h.randDims(), h.randDims())
}

// segments of a canoto message: [start,end) of each top-level field and the start of its payload
type seg struct{ s, p, e int }

func splitFields(b []byte) []seg {
	var out []seg
	i := 0
	for i < len(b) {
		t := b[i]
		if t >= 0x80 {
			return out
		}
		s := i
		i++
		switch t & 7 {
		case 0:
			for i < len(b) && b[i] >= 0x80 {
				i++
			}
			if i >= len(b) {
				return out
			}
			i++
			out = append(out, seg{s, s + 1, i})
		case 1:
			if i+8 > len(b) {
				return out
			}
			i += 8
			out = append(out, seg{s, s + 1, i})
		case 2:
			n, k := binary.Uvarint(b[i:])
			if k <= 0 || uint64(len(b)-i-k) < n {
				return out
			}
			p := i + k
			i = p + int(n)
			out = append(out, seg{s, p, i})
		default:
			return out
		}
	}
	return out
}

func cat(parts ...[]byte) []byte {
	var out []byte
	for _, p := range parts {
		out = append(out, p...)
	}
	return out
}

// mutate returns a byte-level or field-level mutation of a (mostly valid) encoding.
func (h *c15) mutate(b []byte, depth int) []byte {
	g := h.rng()
	b = append([]byte{}, b...)
	segs := splitFields(b)
	switch k := g.Intn(14); {
	case k == 0 && len(b) > 0: // flip a byte
		b[g.Intn(len(b))] ^= byte(1 << g.Intn(8))
		return b
	case k == 1: // trailing bytes
		return append(b, h.smallBytes(3)...)
	case k == 2: // unknown / out-of-order field appended
		tags := [][]byte{{0x38, 0x01}, {0x0a, 0x00}, {0x08, 0x00}, {0x12, 0x01, 0x00}, {0x7a, 0x00}, {0x80, 0x01, 0x00}, {0x3d, 0, 0, 0, 0}}
		return append(b, tags[g.Intn(len(tags))]...)
	case k == 3 && len(b) > 0: // truncate
		return b[:g.Intn(len(b))]
	case k == 4 && len(b) > 0: // pad a varint / length / tag byte: x -> x|0x80, 0x00
		for try := 0; try < 8; try++ {
			i := g.Intn(len(b))
			if b[i] < 0x80 {
				return cat(b[:i], []byte{b[i] | 0x80, 0x00}, b[i+1:])
			}
		}
		return b
	case k == 5 && len(segs) >= 2: // swap two adjacent fields
		i := g.Intn(len(segs) - 1)
		x, y := segs[i], segs[i+1]
		return cat(b[:x.s], b[y.s:y.e], b[x.s:x.e], b[y.e:])
	case k == 6 && len(segs) >= 1: // duplicate a field
		x := segs[g.Intn(len(segs))]
		return cat(b[:x.e], b[x.s:x.e], b[x.e:])
	case k == 7 && len(segs) >= 1: // delete a field
		x := segs[g.Intn(len(segs))]
		return cat(b[:x.s], b[x.e:])
	case k == 8: // insert a zero-valued field of a random tag at a field boundary
		pos := 0
		if len(segs) > 0 {
			x := segs[g.Intn(len(segs))]
			pos = x.s
			if g.Bool() {
				pos = x.e
			}
		}
		f := byte(1 + g.Intn(7))
		var z []byte
		switch g.Intn(4) {
		case 0:
			z = []byte{f<<3 | 0, 0}
		case 1:
			z = append([]byte{f<<3 | 1}, make([]byte, 8)...)
		case 2:
			z = []byte{f<<3 | 2, 0}
		default:
			z = append([]byte{f<<3 | 2, 32}, make([]byte, 32)...)
		}
		return cat(b[:pos], z, b[pos:])
	case k == 9 && len(segs) >= 1: // change the wire type of a tag
		x := segs[g.Intn(len(segs))]
		b[x.s] = b[x.s]&^7 | byte(g.Intn(8))
		return b
	case k >= 10 && len(segs) >= 1 && depth < 4: // mutate inside a length-delimited field, re-frame
		var lens []seg
		for _, x := range segs {
			if b[x.s]&7 == 2 {
				lens = append(lens, x)
			}
		}
		if len(lens) == 0 {
			return b
		}
		x := lens[g.Intn(len(lens))]
		var inner []byte
		if g.Chance(35) { // junk after the nested value (trailing bytes inside a field)
			inner = append(append([]byte{}, b[x.p:x.e]...), h.smallBytes(2)...)
			if len(inner) == x.e-x.p {
				inner = append(inner, 0)
			}
		} else {
			inner = h.mutate(b[x.p:x.e], depth+1)
		}
		return cat(b[:x.s+1], binary.AppendUvarint(nil, uint64(len(inner))), inner, b[x.e:])
	}
	return b
}

func (h *c15) generate() []string {
	var lines []string
	add := func(kind string, b []byte) { lines = append(lines, kind+" "+verifh.Hex(b)) }

	// ---- corpus first: witnesses of known defects / boundary shapes
	a0, au0 := chaintest.NewDummyTestAction(), chaintest.NewDummyTestAuth()
	base0 := chain.Base{Timestamp: 1724315246000, ChainID: ids.ID{1, 2, 3}, MaxFee: 7}
	junkAction := append(append([]byte{}, a0.Bytes()...), 0xff, 0xee)
	junkAuth := append(append([]byte{}, au0.Bytes()...), 0x01)
	add("action", junkAction)
	add("auth", junkAuth)
	w1 := (&chain.SerializeTx{Base: base0, Actions: []codec.Bytes{junkAction}, Auth: au0.Bytes()}).MarshalCanoto()
	w2 := (&chain.SerializeTx{Base: base0, Actions: []codec.Bytes{a0.Bytes()}, Auth: junkAuth}).MarshalCanoto()
	add("tx", w1)
	add("tx", w2)
	good, _ := chain.NewTransaction(base0, []chain.Action{a0}, au0)
	add("tx", good.Bytes())
	add("tx", nil)
	add("tx", (&chain.SerializeTx{Base: base0, Actions: []codec.Bytes{a0.Bytes()}}).MarshalCanoto())             // no auth
	add("tx", (&chain.SerializeTx{Actions: []codec.Bytes{a0.Bytes()}, Auth: au0.Bytes()}).MarshalCanoto())        // zero base
	add("tx", (&chain.SerializeTx{Base: base0, Actions: []codec.Bytes{{}}, Auth: au0.Bytes()}).MarshalCanoto())   // empty action entry
	add("tx", (&chain.SerializeTx{Base: base0, Auth: au0.Bytes()}).MarshalCanoto())                               // no actions
	add("tx", (&chain.SerializeTx{Base: base0, Actions: []codec.Bytes{a0.Bytes()}, Auth: make([]byte, 300)}).MarshalCanoto()) // oversized auth
	// auth fields of every length-prefix width (total auth size 1, 2, 126..130, 16382..16386)
	for _, n := range []int{1, 2, 126, 127, 128, 129, 130, 16382, 16383, 16384, 16385, 16386} {
		va := &c15VarAuth{payload: make([]byte, n-1)}
		for i := range va.payload {
			va.payload[i] = byte(i*7 + n)
		}
		vtx, _ := chain.NewTransaction(base0, []chain.Action{a0}, va)
		add("tx", vtx.Bytes())
		if n == 128 || n == 16384 {
			vb, _ := chain.NewStatelessBlock(ids.ID{9}, 5, 6, []*chain.Transaction{good, vtx}, ids.ID{7}, nil)
			add("block", vb.GetBytes())
			add("batch", (&chain.BatchedTransactionSerializer{}).Marshal([]*chain.Transaction{vtx, good}))
		}
	}
	add("batch", (&chain.BatchedTransactions{Transactions: []*chain.Transaction{good, nil}}).MarshalCanoto())     // nil tx
	add("batch", nil)
	wb, _ := chain.NewStatelessBlock(ids.ID{9}, 5, 6, []*chain.Transaction{good}, ids.ID{7}, &block.Context{PChainHeight: 3})
	add("block", wb.GetBytes())
	add("block", nil)
	add("result", nil)
	add("results", nil)
	add("xblock", nil)
	add("result", []byte{0x08, 0x00}) // zero bool
	add("result", []byte{0x08, 0x02}) // invalid bool
	add("xblock", chain.NewExecutedBlock(wb, []*chain.Result{{Success: true, Fee: 1}}, fees.Dimensions{1}, fees.Dimensions{}).MarshalCanoto())

	// parse, then Sign() the parsed transaction data again, then look at the parsed value again
	au1 := &chaintest.TestAuth{NumComputeUnits: 77, ActorAddress: codec.Address{4, 5}, SponsorAddress: codec.Address{6}, Start: -1, End: -1}
	add3 := func(kind string, b []byte, a []byte) { lines = append(lines, kind+" "+verifh.Hex(b)+" "+verifh.Hex(a)) }
	add3("rtx", good.Bytes(), au1.Bytes())
	add3("rblock", wb.GetBytes(), au1.Bytes())
	add3("rbatch", (&chain.BatchedTransactionSerializer{}).Marshal([]*chain.Transaction{good, good}), au1.Bytes())

	// ---- structured values and their mutations
	n := h.r.N(2500, 40000)
	for i := 0; i < n; i++ {
		var kind string
		var b []byte
		switch h.rng().Intn(10) {
		case 0, 1, 2, 3:
			kind, b = "tx", h.randTx().Bytes()
		case 4, 5:
			kind, b = "block", h.randBlock().GetBytes()
		case 6:
			kind, b = "batch", (&chain.BatchedTransactionSerializer{}).Marshal(h.randTxs(3))
		case 7:
			kind, b = "result", h.randResult().Marshal()
		case 8:
			kind, b = "results", h.randResults().Marshal()
		default:
			var blk *chain.StatelessBlock
			if h.rng().Chance(85) {
				blk = h.randBlock()
			}
			er := h.randResults()
			eb := &chain.ExecutedBlock{Block: blk, ExecutionResults: er}
			if h.rng().Chance(10) {
				eb.ExecutionResults = nil
			}
			kind, b = "xblock", eb.MarshalCanoto()
		}
		add(kind, b)
		if (kind == "tx" || kind == "block" || kind == "batch") && h.rng().Chance(25) {
			add3("r"+kind, b, h.randAuth().Bytes())
		}
		for j := h.rng().Intn(5); j > 0; j-- {
			m := h.mutate(b, 0)
			if h.rng().Chance(20) {
				m = h.mutate(m, 0)
			}
			add(kind, m)
		}
		if h.rng().Chance(10) {
			add("action", h.mutate(h.randAction().Bytes(), 9))
			add("auth", h.mutate(h.randAuth().Bytes(), 9))
		}
	}
	return lines
}
