package chain_test

import (
	"testing"

	"github.com/ava-labs/hypersdk/chain"
	"github.com/ava-labs/hypersdk/codec"
	"github.com/ava-labs/hypersdk/internal/verifh"
	"github.com/ava-labs/hypersdk/internal/verifx"
	"github.com/ava-labs/hypersdk/state/balance"
)

// C27 with state/balance.PrefixBalanceHandler (any prefix). Body: harness/lib/verifx/c27.go.
func TestVerifC27(t *testing.T) {
	r := verifh.Start("C27")
	defer r.Finish()
	verifx.RunC27(r, verifx.C27Handler{New: func(p []byte) (chain.BalanceHandler, func(codec.Address) []byte) {
		bh := balance.NewPrefixBalanceHandler(p)
		return bh, bh.BalanceKey
	}})
}
