package metadata

import (
	"bytes"
	"strings"
	"testing"

	"github.com/ava-labs/hypersdk/internal/verifh"
)

// C39: HasConflictingPrefixes(m, vm) == "some listed prefix is a prefix of another".
func TestVerifC39(t *testing.T) {
	r := verifh.Start("C39")
	defer r.Finish()

	lines := r.ReplayLines()
	if lines == nil {
		// exhaustive: all lists of 3 metadata + 0..2 VM prefixes, each of length <= 2 over {00,01}
		alpha := [][]byte{{}, {0}, {1}, {0, 0}, {0, 1}, {1, 0}, {1, 1}}
		var rec func(cur [][]byte, n int)
		rec = func(cur [][]byte, n int) {
			if len(cur) == n {
				lines = append(lines, c39Line(cur))
				return
			}
			for _, a := range alpha {
				rec(append(cur[:len(cur):len(cur)], a), n)
			}
		}
		for n := 3; n <= 5; n++ {
			rec(nil, n)
		}
		r.Extra("exhaustive_lists", len(lines))
		// random longer ones, biased to shared stems
		for i := 0; i < r.N(20000, 400000); i++ {
			n := 3 + r.RNG.Intn(8)
			stem := r.RNG.Bytes(r.RNG.Intn(4))
			ps := make([][]byte, n)
			for j := range ps {
				switch r.RNG.Intn(4) {
				case 0:
					ps[j] = r.RNG.Bytes(r.RNG.Intn(4))
				case 1:
					ps[j] = append(append([]byte{}, stem...), byte(j))
				case 2:
					ps[j] = append(append([]byte{}, stem...), r.RNG.Bytes(r.RNG.Intn(3))...)
				default:
					ps[j] = []byte{byte(j), byte(r.RNG.Intn(3))}
				}
			}
			lines = append(lines, c39Line(ps))
		}
	}

	for _, l := range lines {
		f := verifh.Fields(l)
		if len(f) < 4 || f[0] != "conflict" {
			r.Emit(l, "bad-op")
			continue
		}
		ps := make([][]byte, 0, len(f)-1)
		for _, h := range f[1:] {
			ps = append(ps, verifh.MustUnHex(h))
		}
		got := HasConflictingPrefixes(NewManager(ps[0], ps[1], ps[2]), ps[3:])
		r.Emit(l, map[bool]string{true: "true", false: "false"}[got])
		// oracle: the property's statement evaluated directly
		want := false
		for i := range ps {
			for j := range ps {
				if i != j && bytes.HasPrefix(ps[j], ps[i]) {
					want = true
				}
			}
		}
		if want {
			r.Distinct(l)
		}
		if got != want {
			r.Violation("conflict-mismatch", "HasConflictingPrefixes=%v but prefix relation says %v for %s", got, want, l)
		}
	}
}

func c39Line(ps [][]byte) string {
	var sb strings.Builder
	sb.WriteString("conflict")
	for _, p := range ps {
		sb.WriteByte(' ')
		sb.WriteString(verifh.Hex(p))
	}
	return sb.String()
}
