package tstate

import (
	"fmt"
	"strconv"
	"testing"

	"github.com/ava-labs/hypersdk/internal/verifh"
	"github.com/ava-labs/hypersdk/keys"
	"github.com/ava-labs/hypersdk/state"
)

// C40 (view part): TStateView.Insert accepts a value only if its chunk count does not exceed the
// number in the key's last two bytes; keys shorter than two bytes are never writable.
func TestVerifC40View(t *testing.T) {
	r := verifh.Start("C40")
	defer r.Finish()
	// chunk size, read off the running code: the smallest length that needs two chunks
	chunk := 1
	for {
		c, _ := keys.NumChunks(make([]byte, chunk))
		if c >= 2 {
			break
		}
		chunk++
	}
	lines := r.ReplayLines()
	if lines == nil {
		lines = c40ViewGenerate(r, chunk)
	}
	e := newVfExec(r, true)
	e.can = func(sc state.Keys) func(string, state.Permissions) bool {
		return func(k string, need state.Permissions) bool {
			if sc == nil {
				return true
			}
			return sc[k].Has(need)
		}
	}
	// the size rule, stated from the property (not by calling keys.VerifyValue)
	e.fits = func(k string, v []byte) bool {
		if len(k) < 2 {
			return false
		}
		maxc := int(k[len(k)-2])<<8 | int(k[len(k)-1])
		if len(v) == 0 {
			return true
		}
		c := len(v)/chunk + 1
		return c <= 65535 && c <= maxc
	}
	// state.Keys.Add refuses keys shorter than two bytes (knew / kadd / khas / kget lines)
	ks := state.Keys{}
	e.extra = func(f []string) (string, bool) {
		switch {
		case len(f) == 1 && f[0] == "knew":
			ks = state.Keys{}
			return "ok", true
		case len(f) == 3 && (f[0] == "kadd" || f[0] == "khas"):
			k, e1 := verifh.UnHex(f[1])
			p, e2 := strconv.ParseUint(f[2], 10, 8)
			if e1 != nil || e2 != nil {
				return "bad-op", true
			}
			if f[0] == "khas" {
				return strconv.FormatBool(ks.Has(k, state.Permissions(p))), true
			}
			got := ks.Add(string(k), state.Permissions(p))
			_, in := ks[string(k)]
			if len(k) < 2 && (got || in) {
				e.viol("short-key-accepted", "Keys.Add(%x)=%v, in map: %v", k, got, in)
			}
			if len(k) >= 2 && !got {
				e.viol("valid-key-rejected", "Keys.Add(%x)=false", k)
			}
			r.Distinct(fmt.Sprintf("add-len%d:%v", len(k), got))
			return strconv.FormatBool(got), true
		case len(f) == 3 && f[0] == "simhas":
			k, e1 := verifh.UnHex(f[1])
			p, e2 := strconv.ParseUint(f[2], 10, 8)
			if e1 != nil || e2 != nil {
				return "bad-op", true
			}
			sk := state.SimulatedKeys{}
			got := sk.Has(k, state.Permissions(p))
			entry := "none"
			if q, ok := sk[string(k)]; ok {
				entry = strconv.Itoa(int(q))
			}
			if len(k) < 2 && got {
				// known finding: a simulated scope grants a key that can never be declared
				e.viol("short-key-use-not-rejected", "SimulatedKeys.Has(%x, %d) = true (Keys.Add refused the key, its result is ignored)", k, p)
			}
			return fmt.Sprintf("%v %s", got, entry), true
		case len(f) == 2 && f[0] == "kget":
			k, e1 := verifh.UnHex(f[1])
			if e1 != nil {
				return "bad-op", true
			}
			if p, ok := ks[string(k)]; ok {
				return strconv.Itoa(int(p)), true
			}
			return "none", true
		}
		return "", false
	}
	// known finding: under CompletePermissions, GetValue and Remove do not reject a key shorter
	// than two bytes (Insert does); any *other* acceptance of a short key has its own class
	e.after = func(f []string, out string) {
		if len(f) == 2 && (f[0] == "get" || f[0] == "remove") && e.keysScope == nil {
			if k, err := verifh.UnHex(f[1]); err == nil && len(k) < 2 && out != "perm" && out != "badvalue" && out != "bad-op" {
				e.viol("short-key-use-not-rejected", "%s of the %d-byte key %x under CompletePermissions is not rejected: %s", f[0], len(k), k, out)
			}
		}
	}
	e.runLines(lines, func() {
		if e.seqMut > 0 {
			r.Distinct(e.seqText.String())
		}
	})
}

func c40ViewGenerate(r *verifh.Run, chunk int) []string {
	var lines []string
	seq := func(k []byte, scope string, vals ...string) {
		h := verifh.Hex(k)
		lines = append(lines, fmt.Sprintf("reset U=%s P= C= F= O=0", h))
		if scope == "*" {
			lines = append(lines, "view *")
		} else {
			lines = append(lines, fmt.Sprintf("view %s:%s", h, scope))
		}
		for _, v := range vals {
			lines = append(lines, "insert "+h+" "+v, "get "+h)
		}
		lines = append(lines, "opindex", "commit")
	}
	z := func(n int) string { return fmt.Sprintf("z%d", n) }
	// short keys at the sites that do not reject them (known finding short-key-use-not-rejected)
	for _, k := range []string{"07", "-", "ff"} {
		lines = append(lines, fmt.Sprintf("reset U=%s P=%s:09 C= F= O=0", k, k), "view *",
			"get "+k, "insert "+k+" 01", "remove "+k, "get "+k, "opindex", "commit", "view *", "get "+k,
			fmt.Sprintf("reset U=%s P=%s:09 C= F= O=0", k, k), "view "+k+":7", "get "+k, "remove "+k, "insert "+k+" -", "commit")
		lines = append(lines, "simhas "+k+" 7", "simhas "+k+" 1")
	}
	lines = append(lines, "simhas 610001 3", "simhas 0000 5")
	// state.Keys.Add with key lengths 0..6
	for l := 0; l <= 6; l++ {
		for rep := 0; rep < r.N(40, 400); rep++ {
			k := verifh.Hex(r.RNG.Bytes(l))
			p := []int{0, 1, 3, 5, 7, 255}[r.RNG.Intn(6)]
			lines = append(lines, "knew", fmt.Sprintf("kadd %s %d", k, p), "kget "+k,
				fmt.Sprintf("khas %s 1", k), fmt.Sprintf("khas %s 0", k), fmt.Sprintf("kadd %s 4", k), "kget "+k)
		}
	}
	// boundary grid: key lengths 0..8 x small suffixes x value lengths around chunk multiples
	for l := 0; l <= 8; l++ {
		sufs := [][]byte{{}}
		if l >= 2 {
			sufs = [][]byte{{0, 0}, {0, 1}, {0, 2}, {0, 3}, {1, 0}}
		}
		for _, s := range sufs {
			var k []byte
			if l >= 2 {
				k = append(r.RNG.Bytes(l-2), s...)
			} else {
				k = r.RNG.Bytes(l)
			}
			for _, scope := range []string{"*", "7"} {
				if l == 0 && scope != "*" {
					continue
				}
				var vals []string
				for _, m := range []int{0, 1, 2, 3, 4, 255, 256, 257} {
					for d := -1; d <= 1; d++ {
						if n := m*chunk + d; n >= 0 {
							vals = append(vals, z(n))
						}
					}
				}
				seq(k, scope, vals...)
			}
		}
	}
	// the 16-bit limit
	seq([]byte{9, 0xff, 0xff}, "*", z(chunk*65535-1), z(chunk*65535), z(chunk*65534))
	seq([]byte{9, 0xff, 0xfe}, "7", z(chunk*65534-1), z(chunk*65534), z(chunk*65535-1))
	// random
	for i := 0; i < r.N(3000, 60000); i++ {
		l := r.RNG.Intn(9)
		k := r.RNG.Bytes(l)
		if l >= 2 {
			k[l-2] = 0
			k[l-1] = byte(r.RNG.Intn(6))
		}
		var vals []string
		for j := 0; j < 1+r.RNG.Intn(4); j++ {
			n := r.RNG.Intn(7)*chunk + r.RNG.Intn(3) - 1
			if n < 0 {
				n = 0
			}
			if r.RNG.Chance(50) {
				vals = append(vals, verifh.Hex(r.RNG.Bytes(n)))
			} else {
				vals = append(vals, z(n))
			}
		}
		if l == 0 {
			seq(k, "*", vals...)
		} else {
			seq(k, []string{"*", "7", "5", "3"}[r.RNG.Intn(4)], vals...)
		}
	}
	return lines
}
