package tstate

import (
	"fmt"
	"strings"
	"testing"

	"github.com/ava-labs/hypersdk/internal/verifh"
	"github.com/ava-labs/hypersdk/keys"
	"github.com/ava-labs/hypersdk/state"
)

// C05 (view part): every view operation is checked against the declared scope first; a denied
// operation changes nothing. Tie: Model/TState.lean + Model/Perm.lean. Oracle: vfSpec with the
// access rule stated bit by bit from the property (not by calling Permissions.Has).
func TestVerifC05(t *testing.T) {
	r := verifh.Start("C05")
	defer r.Finish()
	r.Fact("permRead", int(state.Read))
	r.Fact("permAllocate", int(state.Allocate))
	r.Fact("permWrite", int(state.Write))
	r.Fact("permAll", int(state.All))
	r.Fact("permNone", int(state.None))

	lines := r.ReplayLines()
	if lines == nil {
		lines = c05Generate(r)
	}
	e := newVfExec(r, true)
	e.can = func(sc state.Keys) func(string, state.Permissions) bool {
		return func(k string, need state.Permissions) bool {
			if sc == nil {
				return true
			}
			held, declared := sc[k]
			if !declared {
				held = 0
			}
			for bit := 0; bit < 8; bit++ {
				if byte(need)&(1<<bit) != 0 && byte(held)&(1<<bit) == 0 {
					return false
				}
			}
			return true
		}
	}
	e.fits = func(k string, v []byte) bool { return keys.VerifyValue([]byte(k), v) }
	// non-trivial: histories in which at least one operation was denied for lack of permission
	e.runLines(lines, func() {
		if e.seqDenied > 0 {
			r.Distinct(e.seqText.String())
		}
	})
}

func c05Generate(r *verifh.Run) []string {
	var lines []string
	ka := hx(c04KA) // "a" 0002
	kb := hx(c04KB) // "b" 0001
	ke := hx(c04KE) // "a" 0001: differs from ka only in the size suffix
	bases := []string{
		"P= C=", "P=" + ka + ":09 C=", "P= C=" + ka + ":09", "P=" + ka + ":09 C=" + ka + ":x",
		"P=" + ka + ":09 C=" + ka + ":05",
	}
	prog := func() []string {
		return []string{
			"get " + ka, "insert " + ka + " 09", "get " + ka, "insert " + ka + " 05", "opindex", "remove " + ka, "get " + ka,
			"insert " + ka + " 09", "get " + ka, "rollback 2", "get " + ka, "rollback 1", "get " + ka, "keyops", "rollback 0", "get " + ka,
			"remove " + ka, "get " + kb, "insert " + kb + " 01", "insert " + ka + " 05", "rollback 1", "get " + ka, "get " + kb,
			"get " + ke, "insert " + ke + " 01", "remove " + ke, "keyops", "opindex", "commit",
		}
	}
	// exhaustive over the permission byte of the key under test, for each base state; the other
	// key has full access, the suffix-twin is undeclared
	for p := 0; p < 256; p++ {
		for _, b := range bases {
			lines = append(lines, fmt.Sprintf("reset U=%s,%s,%s %s F= O=0", ka, kb, ke, b))
			lines = append(lines, fmt.Sprintf("view %s:%d,%s:7", ka, p, kb))
			lines = append(lines, prog()...)
		}
	}
	// empty scope, only-twin scope, complete permissions
	for _, sc := range []string{"-", ke + ":7", "*", kb + ":7"} {
		for _, b := range bases {
			lines = append(lines, fmt.Sprintf("reset U=%s,%s,%s %s F= O=0", ka, kb, ke, b), "view "+sc)
			lines = append(lines, prog()...)
		}
	}
	// random: several keys with random permission bytes, random ops
	ks := []string{ka, kb, ke, hx(c04KC), hx(c04KD), hx(c04KS)}
	named := []int{0, 1, 3, 5, 7}
	vals := []string{"-", "01", "05", "09", verifh.Hex(make([]byte, 64)), verifh.Hex(make([]byte, 65))}
	for i := 0; i < r.N(4000, 100000); i++ {
		var p, c, sc []string
		for _, k := range ks {
			if r.RNG.Chance(40) {
				p = append(p, k+":"+vals[r.RNG.Intn(len(vals))])
			}
			if r.RNG.Chance(25) {
				c = append(c, k+":"+[]string{"x", "01", "09"}[r.RNG.Intn(3)])
			}
			if r.RNG.Chance(75) {
				perm := named[r.RNG.Intn(len(named))]
				if r.RNG.Chance(30) {
					perm = r.RNG.Intn(256)
				}
				sc = append(sc, fmt.Sprintf("%s:%d", k, perm))
			}
		}
		fl := ""
		if r.RNG.Chance(15) { // parent storage fails on one key
			fl = ks[r.RNG.Intn(len(ks))]
		}
		lines = append(lines, fmt.Sprintf("reset U=%s P=%s C=%s F=%s O=0", strings.Join(ks, ","), strings.Join(p, ","), strings.Join(c, ","), fl))
		if len(sc) == 0 {
			lines = append(lines, "view -")
		} else {
			lines = append(lines, "view "+strings.Join(sc, ","))
		}
		est := 0
		for j := 0; j < 3+r.RNG.Intn(20); j++ {
			k := ks[r.RNG.Intn(len(ks))]
			switch x := r.RNG.Intn(100); {
			case x < 30:
				lines = append(lines, "get "+k)
			case x < 60:
				lines = append(lines, "insert "+k+" "+vals[r.RNG.Intn(len(vals))])
				est++
			case x < 80:
				lines = append(lines, "remove "+k)
				est++
			case x < 85:
				lines = append(lines, "opindex")
			default:
				n := 0
				if est > 0 {
					n = r.RNG.Intn(est + 1)
				}
				lines = append(lines, fmt.Sprintf("rollback %d", n))
				if n < est {
					est = n
				}
			}
		}
		lines = append(lines, "commit")
	}
	return lines
}
