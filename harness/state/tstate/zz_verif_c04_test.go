package tstate

import (
	"fmt"
	"strings"
	"testing"

	"github.com/ava-labs/hypersdk/internal/verifh"
	"github.com/ava-labs/hypersdk/keys"
	"github.com/ava-labs/hypersdk/state"
)

// C04: the transactional state view behaves like a key-value map with checkpoints.
// Tie: every op line is replayed through Model/TState.lean. Oracle: vfSpec (map + snapshots).
func TestVerifC04(t *testing.T) {
	r := verifh.Start("C04")
	defer r.Finish()

	lines := r.ReplayLines()
	if lines == nil {
		lines = c04Generate(r)
	}
	e := newVfExec(r, true)
	// C04 takes the access policy and the size rule from the code (they are C05's and C40's
	// subject); the map-with-checkpoints behaviour is what is evaluated independently here.
	e.can = func(sc state.Keys) func(string, state.Permissions) bool {
		return func(k string, need state.Permissions) bool {
			if sc == nil {
				return true
			}
			return sc[k].Has(need)
		}
	}
	e.fits = func(k string, v []byte) bool { return keys.VerifyValue([]byte(k), v) }
	e.runLines(lines, func() {
		if e.seqInteresting {
			r.Distinct(e.seqText.String())
		}
	})
}

var (
	c04KA = string(keys.EncodeChunks([]byte("a"), 2))
	c04KB = string(keys.EncodeChunks([]byte("b"), 1))
	c04KC = string(keys.EncodeChunks([]byte("c"), 0))
	c04KD = string(keys.EncodeChunks([]byte("d"), 3))
	c04KE = string(keys.EncodeChunks([]byte("a"), 1)) // differs from KA only in the size suffix
	c04KS = "e"                                       // too short to be a key
)

func c04Values() [][]byte {
	mk := func(n int, b byte) []byte {
		v := make([]byte, n)
		for i := range v {
			v[i] = b
		}
		return v
	}
	return [][]byte{{}, {1}, {2}, {5}, {9}, mk(63, 3), mk(64, 4), mk(65, 6), mk(130, 7)}
}

func hx(s string) string { return verifh.Hex([]byte(s)) }

// c04Corpus: witnesses of past findings and hand-picked histories, run first on every run.
func c04Corpus() []string {
	k := hx(c04KB)
	a := hx(c04KA)
	return []string{
		// the C04/C06 defect (fixed in /repo by efedb9d): delete, re-create, delete a key that
		// exists in the parent; the deleted key must not reappear with the parent's value
		"reset U=" + k + " P=" + k + ":09 C= F= O=0", "view *",
		"remove " + k, "insert " + k + " 05", "remove " + k, "get " + k, "opindex", "commit",
		// same under a state.Keys scope, with rollbacks through every checkpoint
		"reset U=" + k + " P=" + k + ":09 C= F= O=3", "view " + k + ":7",
		"remove " + k, "insert " + k + " 05", "remove " + k, "get " + k,
		"rollback 2", "get " + k, "remove " + k, "get " + k, "rollback 1", "get " + k, "rollback 0", "get " + k, "commit",
		// same where the key exists only in the block-level changes
		"reset U=" + k + " P= C=" + k + ":09 F= O=0", "view *",
		"remove " + k, "insert " + k + " 05", "remove " + k, "get " + k, "commit",
		"view *", "get " + k,
		// parent value shadowed by a block-level delete; re-create then restore, then delete
		"reset U=" + k + "," + a + " P=" + k + ":09 C=" + k + ":x F= O=0", "view *",
		"get " + k, "insert " + k + " 09", "get " + k, "remove " + k, "get " + k, "opindex",
		"insert " + a + " 01", "insert " + k + " 02", "rollback 2", "get " + k, "get " + a, "commit",
		// write back the parent's value (pending change disappears), then roll back over it
		"reset U=" + k + " P=" + k + ":09 C= F= O=0", "view *",
		"insert " + k + " 05", "insert " + k + " 09", "opindex", "get " + k, "rollback 1", "get " + k, "commit",
		// two views in a row on one TState, the first abandoned
		"reset U=" + k + "," + a + " P=" + a + ":01 C= F= O=0", "view *",
		"insert " + k + " 05", "remove " + a, "view *", "get " + k, "get " + a, "insert " + k + " 02", "commit",
		"view *", "get " + k, "remove " + k, "commit", "view *", "get " + k,
		// allocates/writes bookkeeping through create, overwrite, remove and every rollback
		"reset U=" + k + "," + a + " P=" + k + ":09 C= F= O=0", "view *",
		"insert " + a + " 01", "keyops", "insert " + a + " " + verifh.Hex(make([]byte, 65)), "keyops", "remove " + a, "keyops",
		"remove " + k, "insert " + k + " 05", "keyops", "remove " + k, "keyops",
		"rollback 5", "keyops", "rollback 4", "keyops", "rollback 3", "keyops", "rollback 2", "keyops", "rollback 1", "keyops", "rollback 0", "keyops", "commit",
		// two views open on one TState at once (the Go view holds *TState): the second view sees
		// what the first commits while it is open
		"reset U=" + k + "," + a + " P=" + k + ":09 C= F= O=0", "view " + k + ":7", "remove " + k,
		"view2 " + a + ":7", "insert " + a + " 01", "swap", "get " + k, "commit", "get " + a, "keyops", "commit",
		"view *", "get " + k, "get " + a,
		// L/E/L: view L touches k, view E commits k to the block, L touches k again: L must see the
		// block's pending change, and its re-insert of the original value must stay pending
		"reset U=" + k + " P=" + k + ":09 C= F= O=0", "view " + k + ":7", "get " + k, "view2 " + k + ":7", "insert " + k + " 05", "commit",
		"get " + k, "insert " + k + " 09", "get " + k, "keyops", "commit", "view *", "get " + k,
		"reset U=" + k + " P= C=" + k + ":09 F= O=0", "view *", "insert " + k + " 09", "get " + k, "view2 *", "remove " + k, "commit",
		"get " + k, "insert " + k + " 09", "get " + k, "opindex", "commit", "view *", "get " + k,
		"reset U=" + k + " P=" + k + ":09 C= F= O=0", "view *", "get " + k, "view2 *", "remove " + k, "commit",
		"get " + k, "insert " + k + " 09", "get " + k, "keyops", "opindex", "commit", "view *", "get " + k,
	}
}

type c04Gen struct {
	r    *verifh.Run
	out  []string
	vals [][]byte
}

func (g *c04Gen) val() []byte { return g.vals[g.r.RNG.Intn(len(g.vals))] }

func c04Generate(r *verifh.Run) []string {
	g := &c04Gen{r: r, vals: c04Values()}
	g.out = append(g.out, c04Corpus()...)
	g.exhaustive(r.N(4, 5))
	nseq := r.N(8000, 300000)
	for i := 0; i < nseq; i++ {
		g.randomSeq()
	}
	for i := 0; i < r.N(1500, 30000); i++ {
		g.twoViewSeq()
	}
	return g.out
}

// exhaustive: every sequence of length <= maxLen over the nine-symbol alphabet below (two keys),
// from twelve base configurations: first key in parent or not x block-level untouched / value /
// delete, second key in parent or not. Odd base configurations run under a state.Keys scope
// granting All on both keys, even ones under CompletePermissions. Every sequence ends with
// get k1, get k2, keyops, opindex, commit; since all prefixes are themselves enumerated, every
// intermediate state is observed at the end of its own sequence.
func (g *c04Gen) exhaustive(maxLen int) {
	k1, k2 := hx(c04KB), hx(c04KA)
	alphabet := []string{
		"insert " + k1 + " 09", "insert " + k1 + " 05", "remove " + k1,
		"insert " + k2 + " 09", "remove " + k2,
		"rollback 0", "rollback 1", "rollback 2", "commit",
	}
	bases := []string{}
	for _, p2 := range []string{"", "," + k2 + ":09"} {
		for _, p := range []string{"", k1 + ":09"} {
			for _, c := range []string{"", k1 + ":05", k1 + ":x"} {
				ps := p + p2
				if p == "" && p2 != "" {
					ps = p2[1:]
				}
				bases = append(bases, fmt.Sprintf("reset U=%s,%s P=%s C=%s F= O=0", k1, k2, ps, c))
			}
		}
	}
	n := 0
	var rec func(base, view string, seq []string)
	rec = func(base, view string, seq []string) {
		if len(seq) > 0 {
			g.out = append(g.out, base, view)
			for _, o := range seq {
				g.out = append(g.out, o)
				if o == "commit" {
					g.out = append(g.out, view)
				}
			}
			g.out = append(g.out, "get "+k1, "get "+k2, "keyops", "opindex", "commit")
			n++
		}
		if len(seq) == maxLen {
			return
		}
		for _, a := range alphabet {
			rec(base, view, append(seq[:len(seq):len(seq)], a))
		}
	}
	for i, b := range bases {
		view := "view *"
		if i%2 == 1 {
			view = "view " + k1 + ":7," + k2 + ":7"
		}
		rec(b, view, nil)
	}
	g.r.Extra("exhaustive_sequences", n)
	g.r.Extra("exhaustive_max_len", maxLen)
	g.r.Extra("exhaustive_bases", len(bases))
}

func (g *c04Gen) randomSeq() {
	rng := g.r.RNG
	all := []string{c04KA, c04KB, c04KC, c04KD, c04KE}
	nk := 4 + rng.Intn(2)
	rng2 := rng.Intn(len(all))
	ks := []string{}
	for i := 0; i < nk; i++ {
		ks = append(ks, all[(rng2+i)%len(all)])
	}
	var u, p, c, f []string
	baseVal := map[string][]byte{}
	for _, k := range ks {
		u = append(u, hx(k))
		if rng.Chance(50) {
			v := g.val()
			p = append(p, hx(k)+":"+verifh.Hex(v))
			baseVal[k] = v
		}
		switch {
		case rng.Chance(25):
			v := g.val()
			c = append(c, hx(k)+":"+verifh.Hex(v))
			baseVal[k] = v
		case rng.Chance(20):
			c = append(c, hx(k)+":x")
			delete(baseVal, k)
		}
		if rng.Chance(3) {
			f = append(f, hx(k))
		}
	}
	if rng.Chance(10) {
		u = append(u, hx(c04KS))
		ks = append(ks, c04KS)
	}
	g.out = append(g.out, fmt.Sprintf("reset U=%s P=%s C=%s F=%s O=%d",
		strings.Join(u, ","), strings.Join(p, ","), strings.Join(c, ","), strings.Join(f, ","), rng.Intn(3)*7))
	newView := func() {
		switch {
		case rng.Chance(50):
			g.out = append(g.out, "view *")
		case rng.Chance(70):
			var sc []string
			for _, k := range ks {
				sc = append(sc, hx(k)+":7")
			}
			g.out = append(g.out, "view "+strings.Join(sc, ","))
		default:
			var sc []string
			perms := []int{0, 1, 3, 5, 7, 7, 7, 4, 2, 6, 255}
			for _, k := range ks {
				if rng.Chance(85) {
					sc = append(sc, fmt.Sprintf("%s:%d", hx(k), perms[rng.Intn(len(perms))]))
				}
			}
			if len(sc) == 0 {
				g.out = append(g.out, "view -")
			} else {
				g.out = append(g.out, "view "+strings.Join(sc, ","))
			}
		}
	}
	newView()
	// the generator estimates the op index (upper bound: mutating ops so far) only to pick
	// useful rollback targets; an over-estimate yields a bad-op line on both sides.
	est := 0
	nops := 1 + rng.Intn(40)
	for i := 0; i < nops; i++ {
		k := ks[rng.Intn(len(ks))]
		if rng.Chance(60) {
			k = ks[rng.Intn(2)] // concentrate on two keys so that histories per key get long
		}
		switch x := rng.Intn(100); {
		case x < 18:
			g.out = append(g.out, "get "+hx(k))
		case x < 50:
			v := g.val()
			if bv, ok := baseVal[k]; ok && rng.Chance(35) {
				v = bv // write the underlying value back
			}
			g.out = append(g.out, "insert "+hx(k)+" "+verifh.Hex(v))
			est++
		case x < 72:
			g.out = append(g.out, "remove "+hx(k))
			est++
		case x < 75:
			g.out = append(g.out, "opindex")
		case x < 77:
			g.out = append(g.out, "keyops")
		case x < 92:
			n := 0
			if est > 0 {
				n = rng.Intn(est + 1)
				if rng.Chance(50) && est > 2 {
					n = est - rng.Intn(3) // shallow rollbacks are the common case
				}
			}
			g.out = append(g.out, fmt.Sprintf("rollback %d", n))
			if n < est {
				est = n
			}
		case x < 97:
			g.out = append(g.out, "commit")
			newView()
			est = 0
		default:
			newView() // view abandoned without commit
			est = 0
		}
	}
	for _, k := range ks[:2] {
		g.out = append(g.out, "get "+hx(k))
	}
	g.out = append(g.out, "keyops", "opindex", "commit")
}

// twoViewSeq: two views open on one TState at the same time, operations and commits interleaved
// (tie only: the model view is handed the shared TState before every op, as the Go view reads
// through its *TState; the single-view spec oracle is off for these histories).
func (g *c04Gen) twoViewSeq() {
	rng := g.r.RNG
	ks := []string{c04KA, c04KB, c04KD}
	var u, p []string
	for _, k := range ks {
		u = append(u, hx(k))
		if rng.Chance(50) {
			p = append(p, hx(k)+":"+verifh.Hex(g.val()))
		}
	}
	g.out = append(g.out, fmt.Sprintf("reset U=%s P=%s C= F= O=0", strings.Join(u, ","), strings.Join(p, ",")))
	scope := func() string {
		if rng.Chance(40) {
			return "*"
		}
		var sc []string
		for _, k := range ks {
			if rng.Chance(60) {
				sc = append(sc, hx(k)+":7")
			}
		}
		if len(sc) == 0 {
			return "-"
		}
		return strings.Join(sc, ",")
	}
	g.out = append(g.out, "view "+scope())
	open := 1
	second := false
	for i := 0; i < 4+rng.Intn(20); i++ {
		k := hx(ks[rng.Intn(len(ks))])
		switch x := rng.Intn(100); {
		case x < 20:
			g.out = append(g.out, "get "+k)
		case x < 45:
			g.out = append(g.out, "insert "+k+" "+verifh.Hex(g.val()))
		case x < 60:
			g.out = append(g.out, "remove "+k)
		case x < 68:
			g.out = append(g.out, fmt.Sprintf("rollback %d", rng.Intn(3)))
		case x < 75:
			g.out = append(g.out, "keyops")
		case x < 87:
			if open == 1 && !second {
				g.out = append(g.out, "view2 "+scope())
				open, second = 2, true
			} else if open == 2 {
				g.out = append(g.out, "swap")
			}
		default:
			if open > 0 {
				g.out = append(g.out, "commit")
				open--
				if open == 0 {
					g.out = append(g.out, "view "+scope())
					open, second = 1, false
				}
			}
		}
	}
	for _, k := range ks {
		g.out = append(g.out, "get "+hx(k))
	}
	g.out = append(g.out, "keyops", "commit")
}
