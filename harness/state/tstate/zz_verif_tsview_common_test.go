package tstate

// Shared executor for the /verif harnesses of C04, C05 and C40 that drive a real
// TState/TStateView from op lines (see /verif/lean/Driver/TSM.lean for the protocol), plus the
// spec-level oracle: an independent map-with-snapshots implementation of the property.

import (
	"bytes"
	"context"
	"errors"
	"fmt"
	"sort"
	"strconv"
	"strings"

	"github.com/ava-labs/avalanchego/database"
	"github.com/ava-labs/avalanchego/utils/maybe"

	"github.com/ava-labs/hypersdk/internal/verifh"
	"github.com/ava-labs/hypersdk/state"
)

var errVfStorage = errors.New("verif: storage failure")

type vfStore struct {
	m    map[string][]byte
	fail map[string]bool
}

func (s vfStore) GetValue(_ context.Context, key []byte) ([]byte, error) {
	if s.fail[string(key)] {
		return nil, errVfStorage
	}
	if v, ok := s.m[string(key)]; ok {
		return v, nil
	}
	return nil, database.ErrNotFound
}

func vfVal(s string) ([]byte, bool) {
	if strings.HasPrefix(s, "z") {
		n, err := strconv.Atoi(s[1:])
		if err != nil || n < 0 {
			return nil, false
		}
		return make([]byte, n), true
	}
	b, err := verifh.UnHex(s)
	return b, err == nil
}

// values up to 300 bytes are compared in full; longer ones (C40's multi-megabyte values) by
// length and a rolling checksum over every byte (same function in Driver/TSM.lean)
func vfShowVal(v []byte) string {
	if len(v) <= 300 {
		return verifh.Hex(v)
	}
	h := uint64(7)
	for _, b := range v {
		h = (h*31 + uint64(b) + 1) % 4294967296
	}
	return fmt.Sprintf("L%d:%d", len(v), h)
}

func vfErr(err error) string {
	switch {
	case err == nil:
		return "ok"
	case errors.Is(err, database.ErrNotFound):
		return "notfound"
	case errors.Is(err, ErrInvalidKeyOrPermission):
		return "perm"
	case errors.Is(err, ErrInvalidKeyValue):
		return "badvalue"
	case errors.Is(err, errVfStorage):
		return "stoerr"
	default:
		return "err:" + strings.ReplaceAll(err.Error(), " ", "_")
	}
}

func vfSplit(s string) []string {
	var out []string
	for _, e := range strings.Split(s, ",") {
		if e != "" {
			out = append(out, e)
		}
	}
	return out
}

// ---- the spec: a key-value map with checkpoints over an underlying state -----------------

type vfKV map[string]string // present keys only

func (m vfKV) clone() vfKV {
	c := make(vfKV, len(m))
	for k, v := range m {
		c[k] = v
	}
	return c
}

func (m vfKV) get(k string) (string, bool) { v, ok := m[k]; return v, ok }

func vfSame(a, b vfKV, k string) bool {
	va, oa := a[k]
	vb, ob := b[k]
	return oa == ob && va == vb
}

type vfSpec struct {
	under  vfKV            // underlying state: block-level changes over the parent
	broken map[string]bool // keys whose underlying lookup fails
	cur    vfKV
	snaps  []vfKV // snaps[i] = visible map when the op index was i
	// access policy and size rule
	can  func(k string, need state.Permissions) bool
	fits func(k string, v []byte) bool
}

func (s *vfSpec) get(k string) string {
	if !s.can(k, state.Read) {
		return "perm"
	}
	if s.broken[k] {
		return "stoerr"
	}
	if v, ok := s.cur[k]; ok {
		return vfShowVal([]byte(v))
	}
	return "notfound"
}

func (s *vfSpec) insert(k string, v []byte) string {
	if !s.can(k, state.Write) {
		return "perm"
	}
	if !s.fits(k, v) {
		return "badvalue"
	}
	if s.broken[k] {
		return "stoerr"
	}
	old, ok := s.cur[k]
	if ok && old == string(v) {
		return "ok"
	}
	if !ok && !s.can(k, state.Allocate) {
		return "perm"
	}
	s.snaps = append(s.snaps, s.cur.clone())
	s.cur[k] = string(v)
	return "ok"
}

func (s *vfSpec) remove(k string) string {
	if !s.can(k, state.Write) {
		return "perm"
	}
	if s.broken[k] {
		return "stoerr"
	}
	if _, ok := s.cur[k]; !ok {
		return "ok"
	}
	s.snaps = append(s.snaps, s.cur.clone())
	delete(s.cur, k)
	return "ok"
}

func (s *vfSpec) rollback(n int) bool {
	if n < 0 || n > len(s.snaps) {
		return false
	}
	if n < len(s.snaps) {
		s.cur = s.snaps[n]
		s.snaps = s.snaps[:n]
	}
	return true
}

// ---- reference for two LIVE views on one TState -----------------------------------------------
//
// Independent of the view code: every view is an overlay (key -> written value / deleted) with
// one overlay snapshot per checkpoint; a read goes overlay -> CURRENT block map -> parent, the
// fall-through order of the property statement, so what another view committed meanwhile is
// seen at once. A write that makes the key equal to what lies underneath leaves no overlay entry.

type vfOpt struct {
	present bool
	v       string
}

type vfLayer struct {
	pend    map[string]vfOpt
	snaps   []map[string]vfOpt
	can     func(k string, need state.Permissions) bool
	foreign map[string]bool // keys another view committed while this one was open
}

func vfCloneOpt(m map[string]vfOpt) map[string]vfOpt {
	c := make(map[string]vfOpt, len(m))
	for k, v := range m {
		c[k] = v
	}
	return c
}

func (e *vfExec) refUnder(k string) vfOpt {
	if o, ok := e.refBlock[k]; ok {
		return o
	}
	if v, ok := e.store.m[k]; ok {
		return vfOpt{true, string(v)}
	}
	return vfOpt{}
}

func (e *vfExec) refVisible(l *vfLayer, k string) vfOpt {
	if o, ok := l.pend[k]; ok {
		return o
	}
	return e.refUnder(k)
}

func vfShowOpt(o vfOpt) string {
	if !o.present {
		return "notfound"
	}
	return vfShowVal([]byte(o.v))
}

// layerStep advances the reference by the line just executed and, while two views are live,
// judges the real output and the real visible state against it.
func (e *vfExec) layerStep(f []string, l string, out string) {
	if len(f) == 0 || out == "bad-op" || out == "panic" {
		return
	}
	judge := e.twoView && !e.layOff
	stale := func(k string) string {
		if e.lay != nil && e.lay.foreign[k] {
			return "stale-read-after-other-view-commit"
		}
		return "two-view-mismatch"
	}
	newLayer := func() *vfLayer {
		return &vfLayer{pend: map[string]vfOpt{}, can: e.can(e.keysScope), foreign: map[string]bool{}}
	}
	switch f[0] {
	case "reset":
		e.lay, e.layOther = nil, nil
		e.refBlock = map[string]vfOpt{}
		for k, c := range e.ts.changedKeys { // the block map the sequence starts from
			if c.HasValue() {
				e.refBlock[k] = vfOpt{true, string(c.Value())}
			} else {
				e.refBlock[k] = vfOpt{}
			}
		}
		e.layOff = len(e.store.fail) > 0
		return
	case "view":
		e.lay, e.layOther = newLayer(), nil
		return
	case "view2":
		e.layOther = e.lay
		e.lay = newLayer()
		return
	case "swap":
		e.lay, e.layOther = e.layOther, e.lay
		return
	}
	if e.lay == nil || e.layOff {
		return
	}
	L := e.lay
	want := ""
	key := ""
	switch f[0] {
	case "get":
		kb, _ := verifh.UnHex(f[1])
		key = string(kb)
		if !L.can(key, state.Read) {
			want = "perm"
		} else {
			want = vfShowOpt(e.refVisible(L, key))
		}
	case "insert":
		kb, _ := verifh.UnHex(f[1])
		vb, _ := vfVal(f[2])
		key = string(kb)
		old := e.refVisible(L, key)
		switch {
		case !L.can(key, state.Write):
			want = "perm"
		case !e.fits(key, vb):
			want = "badvalue"
		case old.present && old.v == string(vb):
			want = "ok"
		case !old.present && !L.can(key, state.Allocate):
			want = "perm"
		default:
			want = "ok"
			L.snaps = append(L.snaps, vfCloneOpt(L.pend))
			L.pend[key] = vfOpt{true, string(vb)}
			if u := e.refUnder(key); u.present && u.v == string(vb) {
				delete(L.pend, key)
			}
		}
	case "remove":
		kb, _ := verifh.UnHex(f[1])
		key = string(kb)
		old := e.refVisible(L, key)
		switch {
		case !L.can(key, state.Write):
			want = "perm"
		case !old.present:
			want = "ok"
		default:
			want = "ok"
			L.snaps = append(L.snaps, vfCloneOpt(L.pend))
			L.pend[key] = vfOpt{}
			if u := e.refUnder(key); !u.present {
				delete(L.pend, key)
			}
		}
	case "opindex":
		want = strconv.Itoa(len(L.snaps))
	case "rollback":
		n, _ := strconv.Atoi(f[1])
		want = "done"
		if n > len(L.snaps) {
			if judge {
				e.viol("two-view-mismatch", "%q accepted by the view but the reference has %d checkpoints", l, len(L.snaps))
			}
			return
		}
		if n < len(L.snaps) {
			L.pend = L.snaps[n]
			L.snaps = L.snaps[:n]
		}
	case "commit":
		for k, o := range L.pend {
			e.refBlock[k] = o
			if e.layOther != nil {
				e.layOther.foreign[k] = true
			}
		}
		e.lay, e.layOther = e.layOther, nil
		if judge {
			for _, k := range e.universe {
				c, ok := e.ts.changedKeys[k]
				ro, rok := e.refBlock[k]
				same := ok == rok && (!ok || (c.HasValue() == ro.present && (!ro.present || string(c.Value()) == ro.v)))
				if !same {
					e.viol("two-view-commit-mismatch", "after %q the block-level entry of key %s differs from the reference", l, verifh.Hex([]byte(k)))
					break
				}
			}
		}
		L = e.lay
		want = ""
	default:
		return
	}
	if !judge {
		return
	}
	if want != "" && want != out {
		cls := "two-view-mismatch"
		if f[0] == "get" {
			cls = stale(key)
		}
		e.viol(cls, "%q returned %s; reading view-pending -> current block map -> parent gives %s", l, out, want)
	}
	// whole visible state of the view that is current now
	if L == nil || e.view == nil {
		return
	}
	for _, k := range e.universe {
		v, err := e.view.getValue(e.ctx, k)
		got := vfErr(err)
		if err == nil {
			got = vfShowVal(v)
		}
		if w := vfShowOpt(e.refVisible(L, k)); got != w {
			cls := "two-view-mismatch"
			if L.foreign[k] {
				cls = "stale-read-after-other-view-commit"
			}
			e.viol(cls, "after %q: key %s resolves to %s in the live view; view-pending -> current block map -> parent gives %s", l, verifh.Hex([]byte(k)), got, w)
			return
		}
	}
}

// ---- executor -------------------------------------------------------------------------------

type vfExec struct {
	r         *verifh.Run
	ctx       context.Context
	universe  []string
	ts        *TState
	store     vfStore
	view      *TStateView
	other     *TStateView // a second view open on the same TState (view2 / swap)
	twoView   bool        // interleaved views: tie only, the single-view spec does not apply
	keysScope state.Keys  // nil = CompletePermissions

	oracle bool
	spec   *vfSpec // nil until the first view
	under  vfKV
	broken map[string]bool
	can    func(sc state.Keys) func(k string, need state.Permissions) bool
	fits   func(k string, v []byte) bool

	// layered reference for histories with two live views (see vfLayer)
	lay, layOther *vfLayer
	refBlock      map[string]vfOpt
	layOff        bool

	pendingV       []vfViol
	extra          func(f []string) (string, bool) // property-specific extra op lines
	after          func(f []string, out string)    // property-specific verdict on an executed line
	seqStart       int
	seqMut         int
	seqDenied      int
	seqInteresting bool
	seqText        strings.Builder
}

func newVfExec(r *verifh.Run, oracle bool) *vfExec {
	return &vfExec{r: r, ctx: context.Background(), oracle: oracle}
}

func (e *vfExec) specOn() bool { return e.oracle && !e.twoView && e.spec != nil }

func (e *vfExec) computeUnder() {
	e.under = vfKV{}
	e.broken = map[string]bool{}
	for k, v := range e.store.m {
		e.under[k] = string(v)
	}
	for k := range e.store.fail {
		delete(e.under, k)
		e.broken[k] = true
	}
	for k, c := range e.ts.changedKeys {
		delete(e.broken, k)
		if c.HasValue() {
			e.under[k] = string(c.Value())
		} else {
			delete(e.under, k)
		}
	}
}

func vfShowNat(universe []string, m map[string]uint16) string {
	var parts []string
	for _, k := range universe {
		if n, ok := m[k]; ok {
			parts = append(parts, fmt.Sprintf("%s=%d", verifh.Hex([]byte(k)), n))
		}
	}
	if len(parts) == 0 {
		return "-"
	}
	return strings.Join(parts, ",")
}

// dumpView renders every field of the view and of the TState behind it (all keys, sorted).
func (e *vfExec) dumpView() string {
	var sb strings.Builder
	maybeMap := func(name string, m map[string]maybe.Maybe[[]byte]) {
		ks := make([]string, 0, len(m))
		for k := range m {
			ks = append(ks, k)
		}
		sort.Strings(ks)
		sb.WriteString(name + "{")
		for _, k := range ks {
			if m[k].IsNothing() {
				fmt.Fprintf(&sb, "%x=N;", k)
			} else {
				fmt.Fprintf(&sb, "%x=S:%x;", k, m[k].Value())
			}
		}
		sb.WriteString("}")
	}
	natMap := func(name string, m map[string]uint16) {
		ks := make([]string, 0, len(m))
		for k := range m {
			ks = append(ks, k)
		}
		sort.Strings(ks)
		sb.WriteString(name + "{")
		for _, k := range ks {
			fmt.Fprintf(&sb, "%x=%d;", k, m[k])
		}
		sb.WriteString("}")
	}
	maybeMap("pending", e.view.pendingChangedKeys)
	natMap("allocates", e.view.allocates)
	natMap("writes", e.view.writes)
	sb.WriteString("ops[")
	for _, o := range e.view.ops {
		pa, pw := "nil", "nil"
		if o.pastAllocates != nil {
			pa = strconv.Itoa(int(*o.pastAllocates))
		}
		if o.pastWrites != nil {
			pw = strconv.Itoa(int(*o.pastWrites))
		}
		fmt.Fprintf(&sb, "%d:%x:%x:%s:%s;", o.t, o.k, o.pastV, pa, pw)
	}
	sb.WriteString("]")
	maybeMap("changed", e.ts.changedKeys)
	fmt.Fprintf(&sb, "tsops=%d", e.ts.ops)
	return sb.String()
}

func (e *vfExec) showChanged() string {
	parts := make([]string, 0, len(e.universe))
	for _, k := range e.universe {
		c, ok := e.ts.changedKeys[k]
		switch {
		case !ok:
			parts = append(parts, verifh.Hex([]byte(k))+"=_")
		case c.IsNothing():
			parts = append(parts, verifh.Hex([]byte(k))+"=N")
		default:
			parts = append(parts, verifh.Hex([]byte(k))+"=S:"+vfShowVal(c.Value()))
		}
	}
	return strings.Join(parts, " ")
}

// sweep compares the whole visible state of the real view (unexported getValue, so the scope
// does not hide anything) with the spec's current map.
func (e *vfExec) sweep(class string, line string) {
	if !e.oracle || e.twoView || e.spec == nil || e.view == nil {
		return
	}
	for _, k := range e.universe {
		v, err := e.view.getValue(e.ctx, k)
		got := vfErr(err)
		if err == nil {
			got = vfShowVal(v)
		}
		want := "notfound"
		if e.spec.broken[k] {
			want = "stoerr"
		} else if sv, ok := e.spec.cur[k]; ok {
			want = vfShowVal([]byte(sv))
		}
		if got != want {
			e.viol(class, "after %q: visible value of key %s is %s, the map-with-checkpoints spec says %s", line, verifh.Hex([]byte(k)), got, want)
			return
		}
	}
}

type vfViol struct{ key, msg string }

// viol queues an oracle verdict; it is reported after the op line it belongs to has been
// emitted, so that the replay written by bin/check ends with the offending operation.
func (e *vfExec) viol(key string, format string, a ...any) {
	e.pendingV = append(e.pendingV, vfViol{key, fmt.Sprintf(format, a...)})
}

func (e *vfExec) flushViol() {
	for _, v := range e.pendingV {
		e.r.Violation(v.key, "%s", v.msg)
	}
	e.pendingV = e.pendingV[:0]
}

func (e *vfExec) exec(l string) {
	out := e.exec1(l)
	e.r.Emit(l, out)
	if e.oracle {
		e.layerStep(verifh.Fields(l), l, out)
	}
	if e.after != nil {
		e.after(verifh.Fields(l), out)
	}
	e.flushViol()
}

func (e *vfExec) exec1(l string) (out string) {
	defer func() {
		if p := recover(); p != nil {
			out = "panic"
			e.r.Emit(l, out)
			e.viol("panic", "op %q panicked: %v", l, p)
			e.flushViol()
			e.view = nil
			panic(vfAbort{})
		}
	}()
	f := verifh.Fields(l)
	if len(f) == 0 {
		return "bad-op"
	}
	if e.extra != nil {
		if o, ok := e.extra(f); ok {
			return o
		}
	}
	switch f[0] {
	case "reset":
		if len(f) != 6 {
			return "bad-op"
		}
		get := func(w, p string) (string, bool) {
			if !strings.HasPrefix(w, p) {
				return "", false
			}
			return w[len(p):], true
		}
		u, ok1 := get(f[1], "U=")
		p, ok2 := get(f[2], "P=")
		c, ok3 := get(f[3], "C=")
		fl, ok4 := get(f[4], "F=")
		o, ok5 := get(f[5], "O=")
		if !(ok1 && ok2 && ok3 && ok4 && ok5) {
			return "bad-op"
		}
		nops, err := strconv.Atoi(o)
		if err != nil || nops < 0 {
			return "bad-op"
		}
		var universe []string
		for _, k := range vfSplit(u) {
			kb, err := verifh.UnHex(k)
			if err != nil {
				return "bad-op"
			}
			universe = append(universe, string(kb))
		}
		st := vfStore{m: map[string][]byte{}, fail: map[string]bool{}}
		for _, kv := range vfSplit(p) {
			a := strings.Split(kv, ":")
			if len(a) != 2 {
				return "bad-op"
			}
			kb, err := verifh.UnHex(a[0])
			vb, ok := vfVal(a[1])
			if err != nil || !ok {
				return "bad-op"
			}
			if _, dup := st.m[string(kb)]; !dup { // first entry wins, as List.lookup does
				st.m[string(kb)] = vb
			}
		}
		ts := New(4)
		ts.ops = nops
		for _, kv := range vfSplit(c) {
			a := strings.Split(kv, ":")
			if len(a) != 2 {
				return "bad-op"
			}
			kb, err := verifh.UnHex(a[0])
			if err != nil {
				return "bad-op"
			}
			if _, dup := ts.changedKeys[string(kb)]; dup {
				continue
			}
			if a[1] == "x" {
				ts.changedKeys[string(kb)] = maybe.Nothing[[]byte]()
			} else {
				vb, ok := vfVal(a[1])
				if !ok {
					return "bad-op"
				}
				ts.changedKeys[string(kb)] = maybe.Some(vb)
			}
		}
		for _, k := range vfSplit(fl) {
			kb, err := verifh.UnHex(k)
			if err != nil {
				return "bad-op"
			}
			st.fail[string(kb)] = true
		}
		e.universe, e.ts, e.store, e.view, e.spec = universe, ts, st, nil, nil
		e.other, e.twoView = nil, false
		e.computeUnder()
		e.seqMut, e.seqDenied, e.seqInteresting = 0, 0, false
		e.seqText.Reset()
		e.seqText.WriteString(l)
		return "ok"
	case "swap":
		if len(f) != 1 || e.view == nil || e.other == nil {
			return "bad-op"
		}
		e.view, e.other = e.other, e.view
		e.seqText.WriteString("|" + l)
		return "ok"
	case "view", "view2":
		if len(f) != 2 || e.ts == nil || (f[0] == "view2" && e.view == nil) {
			return "bad-op"
		}
		var sc state.Keys
		if f[1] != "*" {
			sc = state.Keys{}
			if f[1] != "-" {
				for _, kv := range vfSplit(f[1]) {
					a := strings.Split(kv, ":")
					if len(a) != 2 {
						return "bad-op"
					}
					kb, err := verifh.UnHex(a[0])
					pn, err2 := strconv.Atoi(a[1])
					if err != nil || err2 != nil || pn < 0 || pn > 255 {
						return "bad-op"
					}
					if _, dup := sc[string(kb)]; !dup {
						sc[string(kb)] = state.Permissions(pn)
					}
				}
			}
		}
		e.keysScope = sc
		if f[0] == "view2" {
			e.other, e.twoView = e.view, true
		} else {
			e.other = nil
		}
		if sc == nil {
			e.view = e.ts.NewView(state.CompletePermissions, e.store, 0)
		} else {
			e.view = e.ts.NewView(sc, e.store, 0)
		}
		e.seqMut = 0
		if e.oracle && !e.twoView {
			e.computeUnder()
			e.spec = &vfSpec{under: e.under, broken: e.broken, cur: e.under.clone(), can: e.can(sc), fits: e.fits}
		}
		e.seqText.WriteString("|" + l)
		return "ok"
	}
	// view operations
	if e.view == nil {
		return "bad-op"
	}
	e.seqText.WriteString("|" + l)
	switch f[0] {
	case "get":
		if len(f) != 2 {
			return "bad-op"
		}
		kb, err := verifh.UnHex(f[1])
		if err != nil {
			return "bad-op"
		}
		dump := ""
		if e.oracle {
			dump = e.dumpView()
		}
		v, gerr := e.view.GetValue(e.ctx, kb)
		out = vfErr(gerr)
		if gerr == nil {
			out = vfShowVal(v)
		}
		if out == "perm" {
			e.seqDenied++
		}
		if e.oracle && e.dumpView() != dump {
			e.viol("read-changed-state", "%q changed the view or its TState", l)
		}
		if e.specOn() {
			if want := e.spec.get(string(kb)); want != out {
				e.viol("get-mismatch", "%q returned %s, the most recent write/delete (else block changes, else parent) is %s", l, out, want)
			}
		}
		return out
	case "insert":
		if len(f) != 3 {
			return "bad-op"
		}
		kb, err := verifh.UnHex(f[1])
		vb, ok := vfVal(f[2])
		if err != nil || !ok {
			return "bad-op"
		}
		before := e.view.OpIndex()
		dump := ""
		if e.oracle {
			dump = e.dumpView()
		}
		out = vfErr(e.view.Insert(e.ctx, kb, vb))
		if e.view.OpIndex() != before {
			e.seqMut++
		}
		if out == "perm" {
			e.seqDenied++
		}
		if e.oracle && out != "ok" && e.dumpView() != dump {
			e.viol("failed-op-changed-state", "%q failed with %s but the view or its TState changed (pending/allocates/writes/undo log/changedKeys)", l, out)
		}
		if e.specOn() {
			if want := e.spec.insert(string(kb), vb); want != out {
				e.viol("op-result-mismatch", "%q returned %s, spec says %s", l, out, want)
			}
			e.sweep("visible-state-mismatch", l)
		}
		return out
	case "remove":
		if len(f) != 2 {
			return "bad-op"
		}
		kb, err := verifh.UnHex(f[1])
		if err != nil {
			return "bad-op"
		}
		before := e.view.OpIndex()
		dump := ""
		if e.oracle {
			dump = e.dumpView()
		}
		out = vfErr(e.view.Remove(e.ctx, kb))
		if e.view.OpIndex() != before {
			e.seqMut++
		}
		if out == "perm" {
			e.seqDenied++
		}
		if e.oracle && out != "ok" && e.dumpView() != dump {
			e.viol("failed-op-changed-state", "%q failed with %s but the view or its TState changed (pending/allocates/writes/undo log/changedKeys)", l, out)
		}
		if e.specOn() {
			if want := e.spec.remove(string(kb)); want != out {
				e.viol("op-result-mismatch", "%q returned %s, spec says %s", l, out, want)
			}
			e.sweep("visible-state-mismatch", l)
		}
		return out
	case "keyops":
		if len(f) != 1 {
			return "bad-op"
		}
		al, wr := e.view.KeyOperations()
		pend := 0
		for _, k := range e.universe {
			if _, ok := e.view.pendingChangedKeys[k]; ok {
				pend++
			}
		}
		if e.oracle {
			// bookkeeping invariants of the view, checked on the real maps
			if len(wr) != e.view.PendingChanges() {
				e.viol("bookkeeping-mismatch", "writes has %d keys, pendingChangedKeys %d", len(wr), e.view.PendingChanges())
			}
			for k := range wr {
				if _, ok := e.view.pendingChangedKeys[k]; !ok {
					e.viol("bookkeeping-mismatch", "writes records key %x which has no pending change", k)
				}
			}
			for k := range al {
				if pc, ok := e.view.pendingChangedKeys[k]; !ok || pc.IsNothing() {
					e.viol("bookkeeping-mismatch", "allocates records key %x which is not a pending created value", k)
				}
			}
		}
		return fmt.Sprintf("a:%s w:%s p=%d", vfShowNat(e.universe, al), vfShowNat(e.universe, wr), pend)
	case "opindex":
		if len(f) != 1 {
			return "bad-op"
		}
		n := e.view.OpIndex()
		if e.specOn() && n != len(e.spec.snaps) {
			e.viol("opindex-mismatch", "OpIndex()=%d but %d checkpoints exist in the spec", n, len(e.spec.snaps))
		}
		return strconv.Itoa(n)
	case "rollback":
		if len(f) != 2 {
			return "bad-op"
		}
		n, err := strconv.Atoi(f[1])
		if err != nil || n < 0 || n > e.view.OpIndex() {
			return "bad-op" // outside Rollback's precondition: not executed
		}
		if n < e.view.OpIndex() {
			e.seqInteresting = true
		}
		e.view.Rollback(e.ctx, n)
		if e.specOn() {
			if !e.spec.rollback(n) {
				e.viol("opindex-mismatch", "rollback %d accepted by the view (OpIndex was >= %d) but the spec has %d checkpoints", n, n, len(e.spec.snaps))
			} else {
				e.sweep("rollback-mismatch", l)
				if e.view.OpIndex() != n {
					e.viol("opindex-mismatch", "OpIndex()=%d after rollback %d", e.view.OpIndex(), n)
				}
			}
		}
		return "done"
	case "commit":
		if len(f) != 1 {
			return "bad-op"
		}
		before := map[string]maybe.Maybe[[]byte]{}
		for k, v := range e.ts.changedKeys {
			before[k] = v
		}
		opsBefore := e.ts.ops
		viewOps := e.view.OpIndex()
		e.view.Commit()
		if e.seqMut > 0 {
			e.seqInteresting = true
		}
		if e.specOn() {
			e.checkCommit(l, before, opsBefore, viewOps)
		}
		e.view, e.other = e.other, nil
		return fmt.Sprintf("ops=%d %s", e.ts.OpIndex(), e.showChanged())
	}
	return "bad-op"
}

// checkCommit: the commit published exactly the keys whose visible value differs from the
// underlying state, with those values; everything else in the block-level map is untouched.
func (e *vfExec) checkCommit(l string, before map[string]maybe.Maybe[[]byte], opsBefore, viewOps int) {
	after := e.ts.ChangedKeys()
	inU := map[string]bool{}
	for _, k := range e.universe {
		inU[k] = true
	}
	keys := make([]string, 0, len(after))
	for k := range after {
		keys = append(keys, k)
	}
	sort.Strings(keys)
	for _, k := range keys {
		if !inU[k] {
			if _, was := before[k]; !was {
				e.viol("commit-diff-mismatch", "%q published key %s outside the key universe", l, verifh.Hex([]byte(k)))
				return
			}
		}
	}
	for _, k := range e.universe {
		b, wasB := before[k]
		a, isA := after[k]
		if vfSame(e.spec.cur, e.spec.under, k) && !e.spec.broken[k] || e.spec.broken[k] {
			// not part of the diff: entry must be what it was
			same := wasB == isA && (!wasB || (b.IsNothing() == a.IsNothing() && bytes.Equal(b.Value(), a.Value())))
			if !same {
				e.viol("commit-diff-mismatch", "%q changed the block-level entry of key %s whose visible value equals the underlying state", l, verifh.Hex([]byte(k)))
				return
			}
			continue
		}
		cv, present := e.spec.cur[k]
		ok := isA && ((present && a.HasValue() && string(a.Value()) == cv) || (!present && a.IsNothing()))
		if !ok {
			e.viol("commit-diff-mismatch", "%q did not publish key %s whose visible value differs from the underlying state (or published a wrong value)", l, verifh.Hex([]byte(k)))
			return
		}
	}
	if e.ts.OpIndex() != opsBefore+viewOps {
		e.viol("commit-diff-mismatch", "TState.OpIndex()=%d after commit, want %d+%d", e.ts.OpIndex(), opsBefore, viewOps)
	}
	// a fresh, unrestricted view over the committed TState sees exactly what was visible
	fresh := e.ts.NewView(state.CompletePermissions, e.store, 0)
	for _, k := range e.universe {
		if e.spec.broken[k] {
			continue
		}
		v, err := fresh.GetValue(e.ctx, []byte(k))
		cv, present := e.spec.cur[k]
		if present != (err == nil) || (present && string(v) != cv) || (!present && !errors.Is(err, database.ErrNotFound)) {
			e.viol("commit-diff-mismatch", "after %q a fresh view reads key %s differently from what was visible at commit", l, verifh.Hex([]byte(k)))
			return
		}
	}
}

type vfAbort struct{}

// runLines executes all op lines; a panic inside an op is reported and the rest of that
// sequence (up to the next reset) is skipped.
func (e *vfExec) runLines(lines []string, endSeq func()) {
	i := 0
	for i < len(lines) {
		func() {
			defer func() {
				if p := recover(); p != nil {
					if _, ok := p.(vfAbort); !ok {
						panic(p)
					}
					i++
					for i < len(lines) && !strings.HasPrefix(lines[i], "reset") {
						i++
					}
				}
			}()
			for i < len(lines) {
				if strings.HasPrefix(lines[i], "reset") && e.ts != nil && endSeq != nil {
					endSeq()
				}
				e.exec(lines[i])
				i++
			}
		}()
	}
	if e.ts != nil && endSeq != nil {
		endSeq()
	}
}
