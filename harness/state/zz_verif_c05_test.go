package state

import (
	"fmt"
	"strconv"
	"strings"
	"testing"

	"github.com/ava-labs/hypersdk/internal/verifh"
)

// C05 (state package part): Permissions.Has over all byte pairs, Keys.Add unions, and the key
// union loop of Transaction.StateKeys (for k, v := range decl { if !stateKeys.Add(k, v) {err} }).
// Tie: Model/Perm.lean. Oracle: bitwise inclusion / OR of all declarations, stated directly.
func TestVerifC05Keys(t *testing.T) {
	r := verifh.Start("C05")
	defer r.Finish()
	lines := r.ReplayLines()
	if lines == nil {
		lines = c05KeysGenerate(r)
	}
	ks := Keys{}
	spec := map[string]byte{} // spec of the key set: OR of everything added for a well-formed key
	for _, l := range lines {
		f := verifh.Fields(l)
		switch {
		case len(f) == 3 && f[0] == "has":
			p, e1 := strconv.ParseUint(f[1], 10, 8)
			q, e2 := strconv.ParseUint(f[2], 10, 8)
			if e1 != nil || e2 != nil {
				r.Emit(l, "bad-op")
				continue
			}
			got := Permissions(p).Has(Permissions(q))
			r.Emit(l, strconv.FormatBool(got))
			want := true
			for bit := 0; bit < 8; bit++ {
				if q&(1<<bit) != 0 && p&(1<<bit) == 0 {
					want = false
				}
			}
			if got != want {
				r.Violation("has-not-bit-inclusion", "Permissions(%d).Has(%d)=%v", p, q, got)
			}
			if want && q != 0 {
				r.Distinct(l)
			}
		case len(f) == 1 && f[0] == "knew":
			ks, spec = Keys{}, map[string]byte{}
			r.Emit(l, "ok")
		case len(f) == 3 && (f[0] == "kadd" || f[0] == "khas"):
			k, e1 := verifh.UnHex(f[1])
			p, e2 := strconv.ParseUint(f[2], 10, 8)
			if e1 != nil || e2 != nil {
				r.Emit(l, "bad-op")
				continue
			}
			if f[0] == "kadd" {
				got := ks.Add(string(k), Permissions(p))
				r.Emit(l, strconv.FormatBool(got))
				if got != (len(k) >= 2) {
					r.Violation("add-validity", "Keys.Add(%x)=%v", k, got)
				}
				if len(k) >= 2 {
					spec[string(k)] |= byte(p)
				}
				if byte(ks[string(k)]) != spec[string(k)] {
					r.Violation("add-not-union", "after Keys.Add(%x,%d) the entry is %d, the union of all declarations is %d", k, p, ks[string(k)], spec[string(k)])
				}
			} else {
				got := ks.Has(k, Permissions(p))
				r.Emit(l, strconv.FormatBool(got))
				want := byte(p)&^spec[string(k)] == 0
				if got != want {
					r.Violation("has-vs-declarations", "Keys.Has(%x,%d)=%v with declared union %d", k, p, got, spec[string(k)])
				}
			}
		case len(f) == 2 && f[0] == "kget":
			k, e1 := verifh.UnHex(f[1])
			if e1 != nil {
				r.Emit(l, "bad-op")
				continue
			}
			if p, ok := ks[string(k)]; ok {
				r.Emit(l, strconv.Itoa(int(p)))
			} else {
				r.Emit(l, "none")
			}
		case len(f) == 2 && f[0] == "statekeys":
			type decl struct {
				k string
				p byte
			}
			var decls []decl
			bad := false
			for _, d := range strings.Split(f[1], ";") {
				for _, e := range strings.Split(d, ",") {
					if e == "" {
						continue
					}
					a := strings.Split(e, ":")
					if len(a) != 2 {
						bad = true
						continue
					}
					k, e1 := verifh.UnHex(a[0])
					p, e2 := strconv.ParseUint(a[1], 10, 8)
					if e1 != nil || e2 != nil {
						bad = true
						continue
					}
					decls = append(decls, decl{string(k), byte(p)})
				}
			}
			if bad {
				r.Emit(l, "bad-op")
				continue
			}
			// the loop of Transaction.StateKeys
			stateKeys := make(Keys)
			failed := false
			for _, d := range decls {
				if !stateKeys.Add(d.k, Permissions(d.p)) {
					failed = true
					break
				}
			}
			wantFail := false
			union := map[string]byte{}
			var order []string
			for _, d := range decls {
				if len(d.k) < 2 {
					wantFail = true
				}
				if _, seen := union[d.k]; !seen {
					order = append(order, d.k)
				}
				union[d.k] |= d.p
			}
			if failed {
				r.Emit(l, "err")
			} else if len(order) == 0 {
				r.Emit(l, "empty")
			} else {
				parts := make([]string, 0, len(order))
				for _, k := range order {
					if p, ok := stateKeys[k]; ok {
						parts = append(parts, fmt.Sprintf("%s:%d", verifh.Hex([]byte(k)), p))
					} else {
						parts = append(parts, verifh.Hex([]byte(k))+":none")
					}
				}
				r.Emit(l, strings.Join(parts, ","))
			}
			if failed != wantFail {
				r.Violation("statekeys-validity", "key union failed=%v but a malformed key is declared: %v", failed, wantFail)
			} else if !failed {
				for k, u := range union {
					if byte(stateKeys[k]) != u {
						r.Violation("statekeys-not-union", "key %x ends with permission %d, the union of its declarations is %d", k, stateKeys[k], u)
					}
				}
				if len(stateKeys) != len(union) {
					r.Violation("statekeys-not-union", "%d keys in the set, %d declared", len(stateKeys), len(union))
				}
				if len(decls) > len(order) {
					r.Distinct(l)
				}
			}
		default:
			r.Emit(l, "bad-op")
		}
	}
}

func c05KeysGenerate(r *verifh.Run) []string {
	var lines []string
	for p := 0; p < 256; p++ {
		for q := 0; q < 256; q++ {
			lines = append(lines, fmt.Sprintf("has %d %d", p, q))
		}
	}
	perm := func() int {
		if r.RNG.Chance(70) {
			return []int{0, 1, 3, 5, 7}[r.RNG.Intn(5)]
		}
		return r.RNG.Intn(256)
	}
	pool := []string{"610001", "610002", "620001", "6300", "0000", "61", "-", "ff", "6162630003"}
	key := func() string {
		if r.RNG.Chance(85) {
			return pool[r.RNG.Intn(len(pool))]
		}
		return verifh.Hex(r.RNG.Bytes(r.RNG.Intn(5)))
	}
	for i := 0; i < r.N(3000, 60000); i++ {
		lines = append(lines, "knew")
		for j := 0; j < 1+r.RNG.Intn(8); j++ {
			k := key()
			switch r.RNG.Intn(4) {
			case 0:
				lines = append(lines, fmt.Sprintf("khas %s %d", k, perm()))
			case 1:
				lines = append(lines, "kget "+k)
			default:
				lines = append(lines, fmt.Sprintf("kadd %s %d", k, perm()))
			}
		}
	}
	// Transaction.StateKeys: several actions plus the sponsor, duplicates across them, and
	// now and then a malformed key
	good := []string{"610001", "610002", "620001", "6300", "0000", "6162630003"}
	for i := 0; i < r.N(5000, 100000); i++ {
		var ds []string
		for a := 0; a < 1+r.RNG.Intn(4); a++ {
			var es []string
			for j := 0; j < r.RNG.Intn(4); j++ {
				k := good[r.RNG.Intn(len(good))]
				if r.RNG.Chance(4) {
					k = []string{"61", "-", "ff"}[r.RNG.Intn(3)]
				}
				es = append(es, fmt.Sprintf("%s:%d", k, perm()))
			}
			if len(es) > 0 {
				ds = append(ds, strings.Join(es, ","))
			}
		}
		if len(ds) == 0 {
			ds = []string{"610001:1"}
		}
		lines = append(lines, "statekeys "+strings.Join(ds, ";"))
	}
	return lines
}
