package chainindex

import (
	"context"
	"encoding/binary"
	"errors"
	"fmt"
	"math"
	"strconv"
	"strings"
	"testing"

	"github.com/ava-labs/avalanchego/database"
	"github.com/ava-labs/avalanchego/database/memdb"
	"github.com/ava-labs/avalanchego/ids"
	"github.com/ava-labs/avalanchego/utils/logging"
	"github.com/prometheus/client_golang/prometheus"

	"github.com/ava-labs/hypersdk/internal/verifh"
)

// C19: the block index keeps a complete, bounded window of accepted blocks.
//
// Ops (one sequence = one database, started by `new`):
//   new <window> | restart <window> | accept <height> <salt> | save <height> <salt> | q <height> <salt>
// Output of a mutating op: `<ok|notfound|err> <raw dump of the whole database>`.

type c19Block struct {
	h    uint64
	salt byte
}

func (b *c19Block) GetID() ids.ID {
	var id ids.ID
	binary.BigEndian.PutUint64(id[:8], b.h)
	id[8] = b.salt
	return id
}
func (b *c19Block) GetHeight() uint64 { return b.h }
func (b *c19Block) GetBytes() []byte {
	return append(binary.BigEndian.AppendUint64(nil, b.h), b.salt)
}

type c19Parser struct{}

func (c19Parser) ParseBlock(_ context.Context, b []byte) (*c19Block, error) {
	if len(b) != 9 {
		return nil, fmt.Errorf("unexpected block length %d", len(b))
	}
	return &c19Block{h: binary.BigEndian.Uint64(b), salt: b[8]}, nil
}

func c19Err(err error) string {
	switch {
	case err == nil:
		return "ok"
	case errors.Is(err, database.ErrNotFound):
		return "notfound"
	default:
		return "err"
	}
}

func c19Dump(db database.Database) (string, []uint64) {
	it := db.NewIterator()
	defer it.Release()
	var sb strings.Builder
	var nonGenesis []uint64
	for it.Next() {
		if sb.Len() > 0 {
			sb.WriteByte(' ')
		}
		k := it.Key()
		sb.WriteString(verifh.Hex(k))
		sb.WriteByte('=')
		sb.WriteString(verifh.Hex(it.Value()))
		if len(k) == 9 && k[0] == blockHeightIDPrefix && binary.BigEndian.Uint64(k[1:]) != 0 {
			nonGenesis = append(nonGenesis, binary.BigEndian.Uint64(k[1:]))
		}
	}
	if sb.Len() == 0 {
		return "empty", nil
	}
	return sb.String(), nonGenesis
}

// the property's own bookkeeping for one sequence (the oracle)
type c19Spec struct {
	w        uint64
	hasLast  bool
	last     uint64
	must     map[uint64]bool // heights that the property requires to be retrievable
	saltOf   map[uint64]byte // one block per height as long as the history is a single chain
	coherent bool
	gapSeen  bool // an accept that was not at last+1 (or a first accept onto stored blocks)
	oowSave  bool // a historical save outside the current window (or before any accept, or above last)
	// per stored height, why the unchanged code may legitimately (known findings) still hold it
	belowGap   map[uint64]bool // written before a later accept that was not at last+1
	oow        map[uint64]bool // last written by a historical save outside the window
	stragglers map[uint64]bool // last-window at some restart (kept by cleanupOnStartup, allowed by the bound)
	written    map[uint64]bool
	stored   bool // anything was ever written
}

func c19InWindow(w uint64, hasLast bool, last, h uint64) bool {
	if h == 0 || w == 0 || !hasLast {
		return true
	}
	if h > math.MaxUint64-w {
		return true
	}
	return last < h+w
}

func (s *c19Spec) filter() {
	for h := range s.must {
		if !c19InWindow(s.w, s.hasLast, s.last, h) {
			delete(s.must, h)
		}
	}
}

func TestVerifC19(t *testing.T) {
	r := verifh.Start("C19")
	defer r.Finish()
	ctx := context.Background()

	lines := r.ReplayLines()
	if lines == nil {
		lines = c19Generate(r)
	}

	var (
		db   database.Database
		ci   *ChainIndex[*c19Block]
		spec *c19Spec
		seq  int
	)
	open := func(w uint64) error {
		c, err := New[*c19Block](ctx, logging.NoLog{}, prometheus.NewRegistry(),
			Config{AcceptedBlockWindow: w, BlockCompactionFrequency: 4}, c19Parser{}, db)
		if err == nil {
			ci = c
		}
		return err
	}
	check := func(op string, opErr error, isAccept bool, missingTarget bool) {
		dump, nonGenesis := c19Dump(db)
		r.Emit(op, c19Err(opErr)+" "+dump)
		if spec == nil || !spec.coherent {
			return
		}
		// (1) recording an accepted block always succeeds
		if isAccept && opErr != nil {
			if missingTarget && errors.Is(opErr, database.ErrNotFound) {
				r.Violation("update-fails-prune-target-missing", "UpdateLastAccepted returned %v: the block at height-window was never stored (seq %d, %s)", opErr, seq, op)
			} else {
				r.Violation("update-fails", "UpdateLastAccepted returned %v (seq %d, %s)", opErr, seq, op)
			}
			return
		}
		if opErr != nil {
			r.Violation("op-fails", "%s returned %v (seq %d)", op, opErr, seq)
			return
		}
		// (2) last accepted height
		if spec.hasLast {
			got, err := ci.GetLastAcceptedHeight(ctx)
			if err != nil || got != spec.last {
				r.Violation("last-accepted-wrong", "GetLastAcceptedHeight=%d,%v want %d (seq %d, %s)", got, err, spec.last, seq, op)
			}
		}
		// (3) genesis and the window stay retrievable, by height and by ID
		for h := range spec.must {
			b := &c19Block{h: h, salt: spec.saltOf[h]}
			byH, e1 := ci.GetBlockByHeight(ctx, h)
			idAt, e2 := ci.GetBlockIDAtHeight(ctx, h)
			hOf, e3 := ci.GetBlockIDHeight(ctx, b.GetID())
			byID, e4 := ci.GetBlock(ctx, b.GetID())
			if e1 != nil || e2 != nil || e3 != nil || e4 != nil ||
				byH.GetID() != b.GetID() || idAt != b.GetID() || hOf != h || byID.GetID() != b.GetID() {
				r.Violation("window-block-not-retrievable", "height %d (window %d, last %d) errs=%v/%v/%v/%v (seq %d, %s)", h, spec.w, spec.last, e1, e2, e3, e4, seq, op)
			}
		}
		// (4) whatever is retrievable is mutually consistent
		for h, salt := range spec.saltOf {
			b := &c19Block{h: h, salt: salt}
			byH, e1 := ci.GetBlockByHeight(ctx, h)
			idAt, e2 := ci.GetBlockIDAtHeight(ctx, h)
			hOf, e3 := ci.GetBlockIDHeight(ctx, b.GetID())
			byID, e4 := ci.GetBlock(ctx, b.GetID())
			present := e1 == nil
			if (e2 == nil) != present || (e3 == nil) != present || (e4 == nil) != present {
				r.Violation("mappings-inconsistent", "height %d: byHeight=%v idAtHeight=%v idHeight=%v byID=%v (seq %d, %s)", h, e1, e2, e3, e4, seq, op)
				continue
			}
			if present && (byH.GetID() != b.GetID() || idAt != b.GetID() || hOf != h || byID.GetID() != b.GetID()) {
				r.Violation("mappings-inconsistent", "height %d: contents differ (seq %d, %s)", h, seq, op)
			}
		}
		// (5) no more than window+1 non-genesis blocks (window 0 = keep everything, by design)
		if spec.w != 0 && spec.w != math.MaxUint64 && uint64(len(nonGenesis)) > spec.w+1 {
			// classify by the surplus blocks themselves: every retained block outside the window must be
			// one the known defects explain (written before a non-consecutive accept / saved outside the
			// window) or the one straggler a restart keeps; anything else is a new violation
			gap, oow, unexplained := 0, 0, 0
			for _, x := range nonGenesis {
				if spec.hasLast && x <= spec.last && c19InWindow(spec.w, true, spec.last, x) {
					continue
				}
				switch {
				case spec.belowGap[x]:
					gap++
				case spec.oow[x]:
					oow++
				case spec.stragglers[x]:
				default:
					unexplained++
				}
			}
			key := "retention-exceeds-window"
			switch {
			case unexplained > 0 || gap+oow == 0:
			case gap > 0:
				key = "retention-exceeds-window-after-gap"
			default:
				key = "retention-exceeds-window-after-out-of-window-save"
			}
			r.Violation(key, "%d non-genesis blocks retained, window %d: outside the window %d written before a non-consecutive accept, %d saved out of window, %d unexplained (seq %d, %s)", len(nonGenesis), spec.w, gap, oow, unexplained, seq, op)
		}
	}

	for _, l := range lines {
		f := verifh.Fields(l)
		u := func(i int) (uint64, bool) {
			if i >= len(f) {
				return 0, false
			}
			v, err := strconv.ParseUint(f[i], 10, 64)
			return v, err == nil
		}
		switch {
		case len(f) == 2 && f[0] == "new":
			w, ok := u(1)
			if !ok {
				r.Emit(l, "bad-op")
				continue
			}
			seq++
			db = memdb.New()
			ci = nil
			spec = &c19Spec{w: w, must: map[uint64]bool{}, saltOf: map[uint64]byte{}, coherent: true,
				belowGap: map[uint64]bool{}, oow: map[uint64]bool{}, stragglers: map[uint64]bool{}, written: map[uint64]bool{}}
			err := open(w)
			check(l, err, false, false)
		case len(f) == 2 && f[0] == "restart":
			w, ok := u(1)
			if !ok {
				r.Emit(l, "bad-op")
				continue
			}
			if ci == nil {
				r.Emit(l, "no-index")
				continue
			}
			err := open(w)
			spec.w = w
			spec.filter()
			if err == nil && spec.hasLast && w != 0 && spec.last > w {
				spec.stragglers[spec.last-w] = true
				// the known findings say "until the next restart": whatever is still below last-window
				// after a startup cleanup is no longer explained by them
				for x := range spec.belowGap {
					if x < spec.last-w {
						delete(spec.belowGap, x)
					}
				}
				for x := range spec.oow {
					if x < spec.last-w {
						delete(spec.oow, x)
					}
				}
			}
			check(l, err, false, false)
			r.Count("restart")
		case len(f) == 3 && (f[0] == "accept" || f[0] == "save" || f[0] == "q"):
			h, ok1 := u(1)
			s, ok2 := u(2)
			if !ok1 || !ok2 || s > 255 {
				r.Emit(l, "bad-op")
				continue
			}
			if ci == nil {
				r.Emit(l, "no-index")
				continue
			}
			b := &c19Block{h: h, salt: byte(s)}
			if f[0] == "q" {
				out := "byH="
				if blk, err := ci.GetBlockByHeight(ctx, h); err == nil {
					out += verifh.Hex(blk.GetBytes())
				} else {
					out += c19nf(err)
				}
				out += " idAt="
				if id, err := ci.GetBlockIDAtHeight(ctx, h); err == nil {
					out += verifh.Hex(id[:])
				} else {
					out += c19nf(err)
				}
				out += " hOf="
				if hh, err := ci.GetBlockIDHeight(ctx, b.GetID()); err == nil {
					out += strconv.FormatUint(hh, 10)
				} else {
					out += c19nf(err)
				}
				out += " blk="
				if blk, err := ci.GetBlock(ctx, b.GetID()); err == nil {
					out += verifh.Hex(blk.GetBytes())
				} else {
					out += c19nf(err)
				}
				out += " last="
				if hh, err := ci.GetLastAcceptedHeight(ctx); err == nil {
					out += strconv.FormatUint(hh, 10)
				} else {
					out += c19nf(err)
				}
				r.Emit(l, out)
				continue
			}
			if old, seen := spec.saltOf[h]; seen && old != byte(s) {
				spec.coherent = false // two different blocks at one height: not a chain; tie only
			}
			spec.saltOf[h] = byte(s)
			if f[0] == "accept" {
				// is the prune target missing (for classifying a failure)?
				missing := false
				if spec.w != 0 && h > spec.w {
					_, err := ci.GetBlockIDAtHeight(ctx, h-spec.w)
					missing = errors.Is(err, database.ErrNotFound)
				}
				gapNow := false
				if spec.hasLast {
					if h != spec.last+1 {
						spec.gapSeen, gapNow = true, true
						r.Count("accept-gap")
					} else {
						r.Count("accept-next")
					}
				} else if spec.stored {
					spec.gapSeen, gapNow = true, true
				}
				err := ci.UpdateLastAccepted(ctx, b)
				if err == nil {
					if gapNow {
						for x := range spec.written {
							spec.belowGap[x] = true
						}
					}
					spec.written[h] = true
					delete(spec.belowGap, h)
					delete(spec.oow, h)
					spec.hasLast, spec.last, spec.stored = true, h, true
					spec.must[h] = true
					spec.filter()
				}
				if missing {
					r.Count("prune-target-missing")
					r.Distinct(fmt.Sprintf("missing w=%d h=%d", spec.w, h))
				}
				check(l, err, true, missing)
			} else {
				outside := !spec.hasLast || h > spec.last || !c19InWindow(spec.w, spec.hasLast, spec.last, h)
				if outside {
					spec.oowSave = true
					r.Count("save-out-of-window")
				}
				err := ci.SaveHistorical(b)
				if err == nil {
					spec.stored = true
					spec.written[h] = true
					delete(spec.belowGap, h)
					if outside {
						spec.oow[h] = true
					} else {
						delete(spec.oow, h)
					}
					if c19InWindow(spec.w, spec.hasLast, spec.last, h) {
						spec.must[h] = true
					}
				}
				check(l, err, false, false)
			}
			if spec.coherent && (spec.gapSeen || spec.oowSave) {
				r.Distinct(fmt.Sprintf("seq%d", seq))
			}
		default:
			r.Emit(l, "bad-op")
		}
	}
}

func c19nf(err error) string {
	if errors.Is(err, database.ErrNotFound) {
		return "nf"
	}
	return "err"
}

func c19Generate(r *verifh.Run) []string {
	var lines []string
	add := func(format string, a ...any) { lines = append(lines, fmt.Sprintf(format, a...)) }

	// corpus first: the witnesses of the known defects
	// (a) first accept after state sync: the prune target was never stored
	add("new 2")
	add("accept 0 0")
	add("accept 100 0")
	add("q 100 0")
	// (a') re-accepting the last block
	add("new 1")
	add("accept 0 0")
	add("accept 1 0")
	add("accept 2 0")
	add("accept 2 0")
	// (b) retention after a height gap: blocks below the gap stay until a restart
	add("new 2")
	for h := 0; h <= 4; h++ {
		add("accept %d 0", h)
	}
	add("accept 10 0")
	add("accept 11 0")
	add("accept 12 0")
	add("restart 2")
	// (b') historical saves below the window
	add("new 2")
	add("accept 20 0")
	for h := 19; h >= 12; h-- {
		add("save %d 0", h)
	}
	add("accept 21 0")
	add("restart 2")
	// restart, backfill below the window, restart again: the second startup cleanup must prune it
	add("new 2")
	for h := 0; h <= 6; h++ {
		add("accept %d 0", h)
	}
	add("restart 2")
	add("save 1 0")
	add("save 2 0")
	add("save 3 0")
	add("restart 2")
	add("accept 7 0")
	add("restart 3")
	// the suite's cleanup scenario: saves before any accept
	add("new 5")
	for h := 7; h >= 0; h-- {
		add("save %d 0", h)
	}
	for h := 8; h <= 10; h++ {
		add("accept %d 0", h)
	}
	add("restart 5")
	// restart onto a smaller / larger / zero window
	for _, ws := range [][2]int{{5, 1}, {1, 5}, {5, 0}, {0, 2}, {2, 2}} {
		add("new %d", ws[0])
		for h := 0; h <= 9; h++ {
			add("accept %d 0", h)
		}
		add("restart %d", ws[1])
		add("accept 10 0")
		add("accept 11 0")
		add("restart %d", ws[1])
		add("q 9 0")
	}
	// uint64 boundaries
	add("new 5")
	add("accept 18446744073709551614 0")
	add("accept 18446744073709551615 0")
	add("save 18446744073709551613 0")
	add("restart 18446744073709551615")
	add("accept 3 0")
	add("q 18446744073709551615 0")
	add("new 18446744073709551615")
	add("accept 0 0")
	add("accept 18446744073709551615 0")
	add("restart 1")
	// malformed
	add("accept 1 0 0")
	add("frobnicate")
	add("new x")

	windows := []uint64{0, 1, 2, 5}
	nseq := r.N(260, 6000)
	for i := 0; i < nseq; i++ {
		w := windows[r.RNG.Intn(len(windows))]
		add("new %d", w)
		fork := r.RNG.Chance(15)   // two blocks per height allowed: model validation only
		clean := r.RNG.Chance(35)  // gap-free, in-window saves only: the partial theorem's histories
		salt := func() int {
			if fork && r.RNG.Chance(30) {
				return 1
			}
			return 0
		}
		var last uint64
		hasLast := false
		if r.RNG.Chance(70) {
			add("accept 0 0")
			hasLast = true
		}
		n := 6 + r.RNG.Intn(22)
		for j := 0; j < n; j++ {
			p := r.RNG.Intn(100)
			switch {
			case p < 55 || !hasLast && clean:
				h := last + 1
				if !hasLast {
					h = uint64(r.RNG.Intn(30))
				}
				add("accept %d %d", h, salt())
				last, hasLast = h, true
			case p < 65:
				if clean {
					add("accept %d %d", last+1, salt())
					last++
					break
				}
				var h uint64
				switch r.RNG.Intn(5) {
				case 0:
					h = last + 100
				case 1:
					h = last // re-accept
				case 2:
					if last > 0 {
						h = last - 1 - uint64(r.RNG.Intn(int(min(last, 4)))) // lower
					}
				default:
					h = last + 2 + uint64(r.RNG.Intn(8))
				}
				add("accept %d %d", h, salt())
				last, hasLast = h, true
			case p < 80:
				var h uint64
				if clean {
					// inside the window, at most last
					span := w
					if w == 0 || span > last {
						span = last + 1
					}
					h = last - uint64(r.RNG.Intn(int(span)))
				} else {
					h = uint64(r.RNG.Intn(int(last) + 3))
					if r.RNG.Chance(10) {
						h = last + uint64(r.RNG.Intn(20))
					}
				}
				add("save %d %d", h, salt())
			case p < 90:
				nw := w
				if r.RNG.Chance(50) {
					nw = windows[r.RNG.Intn(len(windows))]
				}
				add("restart %d", nw)
				w = nw
			default:
				add("q %d %d", uint64(r.RNG.Intn(int(last)+3)), salt())
			}
		}
	}
	return lines
}
