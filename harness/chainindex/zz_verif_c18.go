//go:build verif

package chainindex

import "github.com/ava-labs/avalanchego/database"

// VerifWrapDB lets the /verif C18 harness interpose on the chain index database (to stop the
// process inside the index write of a chosen block). Overlaid at build time, never committed.
func (c *ChainIndex[T]) VerifWrapDB(f func(database.Database) database.Database) { c.db = f(c.db) }
