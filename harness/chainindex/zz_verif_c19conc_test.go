package chainindex

import (
	"context"
	"fmt"
	"strconv"
	"sync"
	"testing"
	"time"

	"github.com/ava-labs/avalanchego/database"
	"github.com/ava-labs/avalanchego/database/memdb"
	"github.com/ava-labs/avalanchego/utils/logging"
	"github.com/prometheus/client_golang/prometheus"

	"github.com/ava-labs/hypersdk/internal/verifh"
)

// C19, oracle-only tie: an accept (consensus goroutine, snow/statesync.go + snow/block.go) overlapping
// a historical save (backfill goroutine of internal/validitywindow/syncer.go).
//
// Op: `conc <window> <synced> <hist> <seen>`: accept 0, accept <synced> (state-sync target), optionally
// save the prune target of the next accept, then accept synced+1 while a SaveHistorical(<hist>) runs on
// another goroutine exactly between the accept's staging and its commit (the schedule is pinned by a
// database wrapper: UpdateLastAccepted looks up the prune target in the height->id index at that point).
// Each call must be atomic w.r.t. the other: both blocks recorded, last accepted = synced+1.

type c19HookDB struct {
	database.Database
	mu   sync.Mutex
	hook func()
}

func (h *c19HookDB) Get(key []byte) ([]byte, error) {
	if len(key) > 0 && key[0] == blockHeightIDPrefix {
		h.mu.Lock()
		f := h.hook
		h.hook = nil
		h.mu.Unlock()
		if f != nil {
			f()
		}
	}
	return h.Database.Get(key)
}

func TestVerifC19Conc(t *testing.T) {
	r := verifh.Start("C19")
	defer r.Finish()
	ctx := context.Background()

	lines := r.ReplayLines()
	if lines == nil {
		add := func(w, synced, hist uint64, seen int) {
			lines = append(lines, fmt.Sprintf("conc %d %d %d %d", w, synced, hist, seen))
		}
		// corpus: the three schedules of the state-sync backfill
		add(5, 100, 99, 0)
		add(5, 100, 98, 1)
		add(1, 50, 49, 1)
		for i := 0; i < r.N(150, 3000); i++ {
			w := []uint64{1, 2, 5, 8}[r.RNG.Intn(4)]
			synced := w + 1 + uint64(r.RNG.Intn(120))
			var hist uint64
			switch r.RNG.Intn(4) {
			case 0:
				hist = synced - uint64(r.RNG.Intn(int(w))) // inside the window
			case 1:
				hist = synced + 1 - w // the prune target itself
			case 2:
				hist = uint64(r.RNG.Intn(int(synced))) // anywhere below
			default:
				hist = synced - 1
			}
			add(w, synced, hist, r.RNG.Intn(2))
		}
	}

	for _, l := range lines {
		f := verifh.Fields(l)
		if len(f) != 5 || f[0] != "conc" {
			r.Emit(l, "bad-op")
			continue
		}
		var a [4]uint64
		ok := true
		for i := range a {
			v, err := strconv.ParseUint(f[i+1], 10, 64)
			ok = ok && err == nil
			a[i] = v
		}
		w, synced, hist, seen := a[0], a[1], a[2], a[3]
		if !ok || w == 0 || synced <= w || synced > 1<<62 || hist > synced || seen > 1 {
			r.Emit(l, "bad-op")
			continue
		}
		db := &c19HookDB{Database: memdb.New()}
		ci, err := New[*c19Block](ctx, logging.NoLog{}, prometheus.NewRegistry(),
			Config{AcceptedBlockWindow: w, BlockCompactionFrequency: 4}, c19Parser{}, db)
		if err != nil {
			t.Fatal(err)
		}
		next := &c19Block{h: synced + 1}
		target := next.h - w
		e0 := ci.UpdateLastAccepted(ctx, &c19Block{h: 0})
		e1 := ci.UpdateLastAccepted(ctx, &c19Block{h: synced})
		var e2 error
		if seen == 1 && target != synced && target != 0 {
			e2 = ci.SaveHistorical(&c19Block{h: target})
		}
		histBlk := &c19Block{h: hist}
		var saveErr error
		ran, hung := false, false
		db.mu.Lock()
		db.hook = func() {
			ran = true
			done := make(chan struct{})
			go func() {
				defer close(done)
				saveErr = ci.SaveHistorical(histBlk)
			}()
			select {
			case <-done:
			case <-time.After(10 * time.Second):
				hung = true
			}
		}
		db.mu.Unlock()
		accErr := ci.UpdateLastAccepted(ctx, next)
		out := fmt.Sprintf("setup=%s/%s/%s accept=%s save=%s overlapped=%v", c19Err(e0), c19Err(e1), c19Err(e2), c19Err(accErr), c19Err(saveErr), ran)
		r.Emit(l, out)
		r.Count(fmt.Sprintf("overlapped=%v", ran))
		if ran {
			r.Distinct(l)
		}
		if hung {
			r.Violation("concurrent-save-hangs", "SaveHistorical did not return within 10s while an accept was in flight (%s)", l)
			continue
		}
		if e0 != nil || e1 != nil || e2 != nil || accErr != nil || saveErr != nil {
			r.Violation("op-fails-under-concurrent-save", "%s (%s)", out, l)
			continue
		}
		present := func(b *c19Block) bool {
			byH, err1 := ci.GetBlockByHeight(ctx, b.h)
			idAt, err2 := ci.GetBlockIDAtHeight(ctx, b.h)
			hOf, err3 := ci.GetBlockIDHeight(ctx, b.GetID())
			byID, err4 := ci.GetBlock(ctx, b.GetID())
			return err1 == nil && err2 == nil && err3 == nil && err4 == nil &&
				byH.GetID() == b.GetID() && idAt == b.GetID() && hOf == b.h && byID.GetID() == b.GetID()
		}
		last, lerr := ci.GetLastAcceptedHeight(ctx)
		if lerr != nil || last != next.h || !present(next) {
			r.Violation("accept-lost-under-concurrent-save", "UpdateLastAccepted(%d) returned nil with a historical save of %d in flight, but last accepted = %d (%v) and the block is retrievable = %v (%s)", next.h, hist, last, lerr, present(next), l)
		}
		if hist != target && !present(histBlk) {
			r.Violation("save-lost-under-concurrent-accept", "SaveHistorical(%d) returned nil during the accept of %d but the block is not retrievable (%s)", hist, next.h, l)
		}
		if !present(&c19Block{h: 0}) {
			r.Violation("genesis-lost-under-concurrent-save", "genesis not retrievable (%s)", l)
		}
		// the index keeps working
		after := &c19Block{h: next.h + 1}
		if err := ci.UpdateLastAccepted(ctx, after); err != nil || !present(after) {
			r.Violation("accept-fails-after-concurrent-save", "accept of %d after the overlapped pair: %v (%s)", after.h, err, l)
		}
	}
}
