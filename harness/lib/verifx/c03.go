package verifx

import (
	"bytes"
	"context"
	"fmt"
	"math/big"
	"sort"
	"strconv"
	"strings"
	"time"

	"github.com/ava-labs/avalanchego/ids"

	"github.com/ava-labs/hypersdk/chain"
	"github.com/ava-labs/hypersdk/chain/chaintest"
	"github.com/ava-labs/hypersdk/codec"
	"github.com/ava-labs/hypersdk/fees"
	"github.com/ava-labs/hypersdk/internal/verifh"
	"github.com/ava-labs/hypersdk/state"
)

// C03: Transaction.Execute is atomic and always charges the fee first.
//
// Line protocol (one sequence = `reset` followed by `tx` lines executed on the evolving state):
//   reset <handler> <universe keys> <init k=v,...>
//   tx <prices> <units> <sponsor> <now> <ts> <maxfee> <cid 0|1> <auth s:e> <scope k:p,...> <actions a|a|...>
// Output of tx: `pre <err>` | `exec <err>` | `ok <success> <err> fee= units= outs= state=`.

var (
	C03Now int64 = 1_700_000_000_000

	scriptKeys = [][]byte{{0xaa, 0x00, 0x01}, {0xbb, 0x00, 0x02}, {0xcc, 0x00, 0x00}}
	undeclared = []byte{0xdd, 0x00, 0x01}
)

func Addr(i byte) codec.Address {
	var a codec.Address
	a[0] = i
	a[codec.AddressLen-1] = 0x10 + i
	return a
}

func BalanceKeyOf(bh chain.BalanceHandler, a codec.Address) []byte {
	for k := range bh.SponsorStateKeys(a) {
		return []byte(k)
	}
	panic("no sponsor key")
}

type C03Tx struct {
	Prices, Units fees.Dimensions
	UnitsErr      bool // the op line says `err`: Transaction.Units fails
	Sponsor       codec.Address
	Actor         codec.Address // Auth.Actor(); zero value = same as the sponsor
	Now, TS       int64
	MaxFee        uint64
	WrongChain    bool
	BadAuth       bool // Auth.Verify fails (not part of the C03 line protocol)
	AuthS, AuthE  int64
	Scope         state.Keys
	Actions       []*ScriptAction
	ActionsRaw    string
}

func (t *C03Tx) Build(env *Env) (*chain.Transaction, error) {
	acts := make([]chain.Action, len(t.Actions))
	for i, a := range t.Actions {
		acts[i] = a
	}
	if len(t.Actions) > 0 {
		t.Actions[0].Declared = t.Scope
	} else if len(t.Scope) > 0 {
		return nil, fmt.Errorf("scope without actions")
	}
	base := chain.Base{Timestamp: t.TS, ChainID: env.ChainID, MaxFee: t.MaxFee}
	if t.WrongChain {
		base.ChainID[0] ^= 0xff
	}
	actor := t.Actor
	if actor == (codec.Address{}) {
		actor = t.Sponsor
	}
	auth := &chaintest.TestAuth{NumComputeUnits: 1, ActorAddress: actor, SponsorAddress: t.Sponsor, ShouldErr: t.BadAuth, Start: t.AuthS, End: t.AuthE}
	return chain.NewTransaction(base, acts, auth)
}

func ParseC03Tx(f []string) (*C03Tx, error) {
	if len(f) != 12 || f[0] != "tx" {
		return nil, fmt.Errorf("bad tx line")
	}
	t := &C03Tx{ActionsRaw: f[11]}
	var err error
	if t.Prices, err = ParseDims(f[1]); err != nil {
		return nil, err
	}
	if f[2] == "err" {
		t.UnitsErr = true
	} else if t.Units, err = ParseDims(f[2]); err != nil {
		return nil, err
	}
	if t.Sponsor, err = ParseAddr(f[3]); err != nil {
		return nil, err
	}
	if t.Actor, err = ParseAddr(f[4]); err != nil {
		return nil, err
	}
	if t.Now, err = strconv.ParseInt(f[5], 10, 64); err != nil {
		return nil, err
	}
	if t.TS, err = strconv.ParseInt(f[6], 10, 64); err != nil {
		return nil, err
	}
	if t.MaxFee, err = strconv.ParseUint(f[7], 10, 64); err != nil {
		return nil, err
	}
	switch f[8] {
	case "0":
	case "1":
		t.WrongChain = true
	default:
		return nil, fmt.Errorf("bad cid")
	}
	se := strings.Split(f[9], ":")
	if len(se) != 2 {
		return nil, fmt.Errorf("bad auth range")
	}
	if t.AuthS, err = strconv.ParseInt(se[0], 10, 64); err != nil {
		return nil, err
	}
	if t.AuthE, err = strconv.ParseInt(se[1], 10, 64); err != nil {
		return nil, err
	}
	if t.Scope, err = ParseScope(f[10]); err != nil {
		return nil, err
	}
	if f[11] != "none" {
		for _, as := range strings.Split(f[11], "|") {
			a, err := ParseScriptAction(as)
			if err != nil {
				return nil, err
			}
			t.Actions = append(t.Actions, a)
		}
	}
	return t, nil
}

func scopeString(sc state.Keys) string {
	if len(sc) == 0 {
		return "-"
	}
	ks := make([]string, 0, len(sc))
	for k := range sc {
		ks = append(ks, k)
	}
	sort.Strings(ks)
	p := make([]string, len(ks))
	for i, k := range ks {
		p[i] = fmt.Sprintf("%s:%d", verifh.Hex([]byte(k)), sc[k])
	}
	return strings.Join(p, ",")
}

func kvString(m map[string][]byte) string {
	if len(m) == 0 {
		return "-"
	}
	ks := make([]string, 0, len(m))
	for k := range m {
		ks = append(ks, k)
	}
	sort.Strings(ks)
	p := make([]string, len(ks))
	for i, k := range ks {
		p[i] = verifh.Hex([]byte(k)) + "=" + verifh.Hex(m[k])
	}
	return strings.Join(p, ",")
}

func keysString(ks [][]byte) string {
	p := make([]string, len(ks))
	for i, k := range ks {
		p[i] = verifh.Hex(k)
	}
	return strings.Join(p, ",")
}

func (t *C03Tx) Line() string {
	cid := "0"
	if t.WrongChain {
		cid = "1"
	}
	us := DimsString(t.Units)
	if t.UnitsErr {
		us = "err"
	}
	actor := t.Actor
	if actor == (codec.Address{}) {
		actor = t.Sponsor
	}
	return fmt.Sprintf("tx %s %s %s %s %d %d %d %s %d:%d %s %s", DimsString(t.Prices), us,
		verifh.Hex(t.Sponsor[:]), verifh.Hex(actor[:]), t.Now, t.TS, t.MaxFee, cid, t.AuthS, t.AuthE, scopeString(t.Scope), t.ActionsRaw)
}

// ---------------------------------------------------------------- generator

type c03gen struct {
	r      *verifh.Run
	env    *Env
	bh     chain.BalanceHandler
	tag    string
	sk     [][]byte // sponsor balance keys of Addr(1), Addr(2)
	allKey [][]byte
	// parent = the pre-block storage of the sequence being generated (values that later
	// transactions of the block like to write back)
	parent map[string][]byte
	// clean = this block's transactions declare every key with full permissions, use values that
	// fit the keys and rarely inject failures, so that most of them succeed and later
	// transactions really build on the committed effects of earlier ones
	clean bool
}

func (g *c03gen) value(forBalance bool) []byte {
	rng := g.r.RNG
	if g.clean && forBalance {
		return PutU64(uint64(1_000_000 + rng.Intn(1_000_000)))
	}
	if forBalance && rng.Chance(70) {
		return PutU64(rng.Pick64())
	}
	if g.clean {
		return []byte{} // fits every key (also the 0-chunk one); other writes use parent values
	}
	switch rng.Intn(8) {
	case 0:
		return []byte{}
	case 1:
		return []byte{byte(rng.Intn(4))}
	case 2:
		return PutU64(uint64(rng.Intn(5)))
	case 3:
		return rng.Bytes(63)
	case 4:
		return rng.Bytes(64)
	case 5:
		return rng.Bytes(65)
	case 6:
		return rng.Bytes(7)
	default:
		return rng.Bytes(1 + rng.Intn(12))
	}
}

func (g *c03gen) action(keys [][]byte, failChance int) string {
	rng := g.r.RNG
	n := rng.Intn(6)
	if n == 0 && rng.Chance(50) {
		return "."
	}
	var st []string
	for i := 0; i < n; i++ {
		k := keys[rng.Intn(len(keys))]
		isBal := bytes.Equal(k, g.sk[0]) || bytes.Equal(k, g.sk[1])
		kind := rng.Intn(10)
		if g.clean && kind < 2 && rng.Chance(70) {
			kind = 2 + rng.Intn(8) // reads of keys deleted earlier fail: keep them rare here
		}
		switch kind {
		case 0, 1:
			st = append(st, "r:"+verifh.Hex(k))
		case 2, 3, 4, 5, 6:
			v := g.value(isBal)
			if pv, ok := g.parent[string(k)]; ok && rng.Chance(50) {
				v = pv // exactly the value the key had before the block
			}
			st = append(st, "w:"+verifh.Hex(k)+":"+verifh.Hex(v))
		default:
			st = append(st, "d:"+verifh.Hex(k))
		}
	}
	if rng.Chance(failChance) {
		pos := rng.Intn(len(st) + 1)
		st = append(st[:pos], append([]string{"x"}, st[pos:]...)...)
	}
	if len(st) == 0 {
		return "."
	}
	return strings.Join(st, ",")
}

func (g *c03gen) tx() *C03Tx {
	rng := g.r.RNG
	t := &C03Tx{Sponsor: Addr(1), Now: C03Now, TS: C03Now + 30_000, AuthS: -1, AuthE: -1, Scope: state.Keys{}}
	if rng.Chance(15) {
		t.Sponsor = Addr(2)
	}
	t.Actor = t.Sponsor
	if rng.Chance(35) { // fee delegation: the signer (actor) is not the account that pays (sponsor)
		t.Actor = Addr(1)
		if t.Sponsor == Addr(1) {
			t.Actor = Addr(2)
		}
	}
	t.MaxFee = rng.Pick64()
	// prices
	for i := range t.Prices {
		switch {
		case rng.Chance(90):
			t.Prices[i] = uint64(rng.Intn(4))
		case rng.Chance(85):
			t.Prices[i] = 100
		case g.clean:
			t.Prices[i] = 1
		default:
			t.Prices[i] = rng.Pick64()
		}
	}
	if rng.Chance(5) {
		t.Prices = fees.Dimensions{}
	}
	// rare pre-execution failures
	switch rng.Intn(70) {
	case 0:
		t.TS = C03Now - 1000
	case 1:
		t.TS = C03Now + g.env.Rules.GetValidityWindow() + 1000
	case 2:
		t.TS = C03Now + 30_001
	case 3:
		t.WrongChain = true
	case 4:
		t.AuthS = C03Now + 1
	case 5:
		t.AuthE = C03Now - 1
	case 6:
		t.TS = C03Now // boundary: exactly now is valid
	case 7:
		t.TS = C03Now + g.env.Rules.GetValidityWindow() // boundary
	}
	// scope over script keys, the other sponsor's key, and (sometimes) extra perms on the own key
	perms := []state.Permissions{0, 1, 3, 5, 7, 7, 7, 7, 7, 7, 5, 5, 2, 4, 6}
	own := BalanceKeyOf(g.bh, t.Sponsor)
	for _, k := range g.allKey {
		if g.clean {
			t.Scope[string(k)] = state.All
			continue
		}
		if bytes.Equal(k, own) {
			if rng.Chance(40) {
				t.Scope[string(k)] = perms[rng.Intn(len(perms))]
			}
			continue
		}
		if rng.Chance(75) {
			t.Scope[string(k)] = perms[rng.Intn(len(perms))]
		}
	}
	// actions
	nAct := rng.Intn(5)
	switch rng.Intn(50) {
	case 0:
		nAct = 16
	case 1:
		nAct = 17
	case 2:
		nAct = 0
	}
	keys := append([][]byte{}, g.allKey...)
	if rng.Chance(20) && !g.clean {
		keys = append(keys, undeclared)
	}
	failChance := 25
	if rng.Chance(30) {
		failChance = 0
	}
	if g.clean {
		failChance = 4
	}
	var acts []string
	for i := 0; i < nAct; i++ {
		a := g.action(keys, failChance)
		if rng.Intn(60) == 0 {
			a += fmt.Sprintf("@%d:-1", C03Now+1)
		}
		if rng.Intn(150) == 0 {
			a += "^18446744073709551615" // compute units overflow: Transaction.Units fails
		}
		acts = append(acts, a)
	}
	t.ActionsRaw = "none"
	if nAct > 0 {
		t.ActionsRaw = strings.Join(acts, "|")
	} else {
		t.Scope = state.Keys{}
	}
	g.fillUnits(t)
	return t
}

// fillUnits fills in the units from the real transaction.
func (g *c03gen) fillUnits(t *C03Tx) {
	t.UnitsErr = false
	pt, err := ParseC03Tx(verifh.Fields(t.Line()))
	if err != nil {
		panic(err)
	}
	tx, err := pt.Build(g.env)
	if err != nil {
		panic(err)
	}
	u, err := tx.Units(g.bh, g.env.Rules)
	t.Units, t.UnitsErr = u, err != nil
}

func (g *c03gen) sequence() []string {
	rng := g.r.RNG
	n := 2 + rng.Intn(3)
	if rng.Chance(15) {
		n = 1
	}
	// pre-block storage first (so that transactions can write its values back) ...
	init := map[string][]byte{}
	for _, k := range scriptKeys {
		if rng.Chance(65) {
			mc := int(k[len(k)-2])<<8 | int(k[len(k)-1])
			switch {
			case mc == 0:
				init[string(k)] = []byte{}
			case rng.Chance(50):
				init[string(k)] = rng.Bytes(1 + rng.Intn(8))
			default:
				init[string(k)] = PutU64(uint64(rng.Intn(1000)))
			}
		}
	}
	feeRelative := rng.Chance(35) // ... except the first sponsor's balance in this mode
	for _, k := range g.sk {
		if rng.Chance(93) {
			init[string(k)] = PutU64(uint64(1_000_000 + rng.Intn(1_000_000)))
			if rng.Chance(10) {
				init[string(k)] = PutU64(rng.Pick64())
			}
		}
	}
	g.parent = init
	g.clean = rng.Chance(55)
	txs := make([]*C03Tx, n)
	for i := range txs {
		txs[i] = g.tx()
		txs[i].Prices = txs[0].Prices // one block = one set of unit prices
		txs[i].MaxFee = txs[i].MaxFee/8*8 + uint64(i) // distinct transactions (ids) within a block
		g.fillUnits(txs[i])
	}
	if feeRelative {
		k := BalanceKeyOf(g.bh, txs[0].Sponsor)
		fee := BigFee(txs[0].Prices, txs[0].Units)
		f64 := uint64(0)
		fits := fee.IsUint64()
		if fits {
			f64 = fee.Uint64()
		}
		delete(init, string(k))
		switch rng.Intn(12) {
		case 0: // absent
		case 1:
			init[string(k)] = PutU64(0)
		case 2:
			if fits && f64 > 0 {
				init[string(k)] = PutU64(f64 - 1)
			}
		case 3, 4, 5, 6:
			init[string(k)] = PutU64(f64) // exactly the fee: balance reaches zero
		case 7:
			if f64 < ^uint64(0) {
				init[string(k)] = PutU64(f64 + 1)
			}
		case 8:
			init[string(k)] = PutU64(^uint64(0))
		case 9:
			init[string(k)] = rng.Bytes(7)
		case 10:
			init[string(k)] = []byte{}
		default:
			init[string(k)] = PutU64(f64 + uint64(rng.Intn(100000)))
			if f64 > ^uint64(0)-100000 {
				init[string(k)] = PutU64(^uint64(0))
			}
		}
	}
	lines := []string{fmt.Sprintf("reset %s %s %s", g.tag, keysString(g.allKey), kvString(init))}
	for _, t := range txs {
		lines = append(lines, t.Line())
	}
	return append(lines, "block")
}

// c03Corpus: hand-written witnesses run first on every run.
func (g *c03gen) corpus() []string {
	a1 := Addr(1)
	s1 := verifh.Hex(a1[:])
	sk := verifh.Hex(g.sk[0])
	k1 := verifh.Hex(scriptKeys[0])
	mk := func(prices fees.Dimensions, scope, acts string) string {
		l := fmt.Sprintf("tx %s 0,0,0,0,0 %s %s %d %d 0 0 -1:-1 %s %s", DimsString(prices), s1, s1, C03Now, C03Now+30000, scope, acts)
		pt, err := ParseC03Tx(verifh.Fields(l))
		if err != nil {
			panic(err)
		}
		tx, err := pt.Build(g.env)
		if err != nil {
			panic(err)
		}
		u, err := tx.Units(g.bh, g.env.Rules)
		if err != nil {
			panic(err)
		}
		pt.Units = u
		return pt.Line()
	}
	one := fees.Dimensions{1, 1, 1, 1, 1}
	var out []string
	add := func(bal uint64, scope, acts string) {
		l := mk(one, scope, acts)
		pt, _ := ParseC03Tx(verifh.Fields(l))
		fee := BigFee(pt.Prices, pt.Units).Uint64()
		out = append(out, fmt.Sprintf("reset %s %s %s=%s,%s=0102", g.tag, keysString(g.allKey), sk, verifh.Hex(PutU64(fee+bal)), k1), l, "block")
	}
	// earlier actions delete and re-create the sponsor's own balance record and a plain key,
	// then a later action fails: everything but the fee must be reverted (C04 witness shape)
	add(0, sk+":7,"+k1+":7", "d:"+sk+",w:"+sk+":"+verifh.Hex(PutU64(5))+",d:"+sk+"|d:"+k1+",w:"+k1+":07,d:"+k1+",x")
	add(9, sk+":7,"+k1+":7", "d:"+sk+",w:"+sk+":"+verifh.Hex(PutU64(5))+",d:"+sk+"|d:"+k1+",w:"+k1+":07,d:"+k1+",x")
	add(9, sk+":7,"+k1+":7", "d:"+k1+",w:"+k1+":07,d:"+k1+"|r:"+sk+",r:"+k1)
	add(0, k1+":7", "w:"+k1+":0a|w:"+k1+":0b|x|w:"+k1+":0c")
	add(3, k1+":5", "w:"+k1+":0a,d:"+k1+",w:"+k1+":0b") // re-create needs Allocate: perm error mid-action
	return out
}

// ---------------------------------------------------------------- executor + oracle

func cloneMap(m map[string][]byte) map[string][]byte {
	o := make(map[string][]byte, len(m))
	for k, v := range m {
		o[k] = v
	}
	return o
}

func mapsEqual(a, b map[string][]byte) bool {
	if len(a) != len(b) {
		return false
	}
	for k, v := range a {
		w, ok := b[k]
		if !ok || !bytes.Equal(v, w) {
			return false
		}
	}
	return true
}

func balanceIn(m map[string][]byte, key []byte) (*big.Int, bool) {
	v, ok := m[string(key)]
	if !ok {
		return new(big.Int), true
	}
	u, ok := U64(v)
	if !ok {
		return nil, false
	}
	return new(big.Int).SetUint64(u), true
}

// RunC03 is the body of TestVerifC03 for one balance handler (`tag` = p<hexprefix> | m).
func RunC03(r *verifh.Run, bh chain.BalanceHandler, tag string) {
	ctx := context.Background()
	env := NewEnv()
	g := &c03gen{r: r, env: env, bh: bh, tag: tag}
	g.sk = [][]byte{BalanceKeyOf(bh, Addr(1)), BalanceKeyOf(bh, Addr(2))}
	g.allKey = append(append([][]byte{}, scriptKeys...), g.sk...)

	lines := r.ReplayLines()
	if lines == nil {
		lines = g.corpus()
		for i := 0; i < r.N(2500, 60000); i++ {
			lines = append(lines, g.sequence()...)
		}
	}

	var c *Chain
	var seq []seqTx
	rb := NewRealBlocks(bh)
	for _, l := range lines {
		f := verifh.Fields(l)
		if len(f) == 1 && f[0] == "block" {
			if c == nil {
				r.Emit(l, "bad-op")
				continue
			}
			runC03Block(r, rb, env, c, seq, tag, l)
			continue
		}
		if len(f) == 4 && f[0] == "reset" {
			seq = nil
			if f[1] != tag {
				r.Emit(l, "bad-op")
				c = nil
				continue
			}
			u, err1 := ParseKeys(f[2])
			init, err2 := ParseKV(f[3])
			if err1 != nil || err2 != nil {
				r.Emit(l, "bad-op")
				c = nil
				continue
			}
			c = NewChain(u, init)
			r.Emit(l, "ok")
			continue
		}
		t, err := ParseC03Tx(f)
		if err != nil || c == nil {
			r.Emit(l, "bad-op")
			continue
		}
		tx, err := t.Build(env)
		if err != nil {
			r.Emit(l, "bad-op")
			continue
		}
		realUnits, uerr := tx.Units(bh, env.Rules)
		if (uerr != nil) != t.UnitsErr || (uerr == nil && realUnits != t.Units) {
			r.Emit(l, fmt.Sprintf("units-mismatch real=%s err=%v", DimsString(realUnits), uerr))
			r.Violation("harness-units", "units on the op line differ from Transaction.Units: %s", l)
			continue
		}
		pre := c.Visible()
		o := c.Process(ctx, env, bh, t.Prices, tx, t.Now)
		r.Emit(l, c.OutcomeString(o)+" diff="+c.DiffString())
		post := c.Visible()
		seq = append(seq, seqTx{t: t, o: o, line: l})
		r.Count("stage:" + o.Stage)
		r.Count(fmt.Sprintf("nactions:%d", len(t.Actions)))

		// ---- oracle: the statement of C03 evaluated on the implementation's outputs
		sk := BalanceKeyOf(bh, t.Sponsor)
		if o.Stage != "ok" {
			r.Count("err:" + o.Stage + ":" + ClassErr(o.Err))
			if o.Stage == "exec" {
				// PreExecute passed, Execute returned an error: by the model this happens exactly
				// for a zero fee and a sponsor without a balance record
				_, present := pre[string(sk)]
				if !t.UnitsErr && BigFee(t.Prices, realUnits).Sign() == 0 && !present {
					r.Count("exec-error:zero-fee-absent-sponsor")
				} else {
					r.Violation("execute-error-after-preexecute-ok", "PreExecute accepted but Execute returned %v (fee %s, sponsor record present=%v)", o.Err, BigFee(t.Prices, realUnits), present)
				}
			}
			if !mapsEqual(pre, post) {
				r.Violation("uncommitted-tx-changed-state", "tx returned %s error %v but the block state changed", o.Stage, o.Err)
			}
			continue
		}
		res := o.Result
		fee := BigFee(t.Prices, realUnits)
		if !fee.IsUint64() || fee.Uint64() != res.Fee {
			r.Violation("fee-not-price-times-units", "Result.Fee=%d but sum price*units=%s", res.Fee, fee)
		}
		if res.Units != realUnits {
			r.Violation("result-units", "Result.Units=%v tx.Units=%v", res.Units, realUnits)
		}
		// the SPONSOR pays; an actor that is a different account is not charged
		if t.Actor != (codec.Address{}) && t.Actor != t.Sponsor {
			ak := BalanceKeyOf(bh, t.Actor)
			touched := false
			for _, a := range t.Actions {
				for _, st := range a.Steps {
					if st.Kind != 'r' && bytes.Equal(st.Key, ak) || st.Kind != 'r' && bytes.Equal(st.Key, sk) {
						touched = true
					}
				}
			}
			sPre, ok1 := balanceIn(pre, sk)
			sPost, ok2 := balanceIn(post, sk)
			aPre, ok3 := balanceIn(pre, ak)
			aPost, ok4 := balanceIn(post, ak)
			if !touched && ok1 && ok2 && ok3 && ok4 && fee.Sign() > 0 &&
				(aPre.Cmp(aPost) != 0 || new(big.Int).Sub(sPre, sPost).Cmp(fee) != 0) {
				r.Violation("fee-charged-to-non-sponsor", "sponsor balance %s -> %s, actor balance %s -> %s, fee %s: the sponsor must pay exactly the fee and the actor nothing", sPre, sPost, aPre, aPost, fee)
			}
		}
		preBal, okPre := balanceIn(pre, sk)
		if !okPre || preBal.Cmp(fee) < 0 {
			r.Violation("executed-without-funds", "tx executed although sponsor balance %v < fee %s", preBal, fee)
			continue
		}
		// state right after the fee: pre-state with only the sponsor balance reduced
		feeOnly := cloneMap(pre)
		left := new(big.Int).Sub(preBal, fee)
		if left.Sign() == 0 && tag == "m" {
			delete(feeOnly, string(sk))
		} else {
			feeOnly[string(sk)] = PutU64(left.Uint64())
		}
		// reference interpreter for the actions that produced an output
		ref := cloneMap(feeOnly)
		refOuts := [][]byte{}
		for i := 0; i < len(res.Outputs) && i < len(t.Actions); i++ {
			out := []byte{}
			for _, s := range t.Actions[i].Steps {
				switch s.Kind {
				case 'r':
					out = append(out, ref[string(s.Key)]...)
				case 'w':
					ref[string(s.Key)] = s.Val
				case 'd':
					delete(ref, string(s.Key))
				}
			}
			refOuts = append(refOuts, out)
		}
		for i := range refOuts {
			if !bytes.Equal(refOuts[i], res.Outputs[i]) {
				r.Violation("outputs-mismatch", "output %d is %x, the actions that ran produce %x", i, res.Outputs[i], refOuts[i])
				break
			}
		}
		wrote := false
		for i := 0; i < len(res.Outputs) && i < len(t.Actions); i++ {
			for _, s := range t.Actions[i].Steps {
				if s.Kind != 'r' {
					wrote = true
				}
			}
		}
		if res.Success {
			r.Count("result:success")
			if len(res.Outputs) != len(t.Actions) || len(res.Error) != 0 {
				r.Violation("success-record", "success with %d outputs for %d actions, error %q", len(res.Outputs), len(t.Actions), res.Error)
			}
			if !mapsEqual(ref, post) {
				r.Violation("success-effects-not-applied", "post-state differs from fee + all action effects: got %s want %s", kvString(post), kvString(ref))
			}
			if wrote {
				r.Distinct("s:" + l)
			}
		} else {
			r.Count("result:failure")
			r.Count("fail:" + Class(string(res.Error)))
			if len(res.Outputs) >= len(t.Actions) || len(res.Error) == 0 {
				r.Violation("failure-record", "failure with %d outputs for %d actions, error %q", len(res.Outputs), len(t.Actions), res.Error)
			}
			if !mapsEqual(feeOnly, post) {
				postBal, okPost := balanceIn(post, sk)
				if okPost && new(big.Int).Add(postBal, fee).Cmp(preBal) != 0 {
					r.Violation("failure-fee-not-kept", "failed tx: sponsor balance %v -> %v, fee %s; post %s", preBal, postBal, fee, kvString(post))
				} else {
					r.Violation("failure-effects-not-reverted", "failed tx left action effects: got %s want %s", kvString(post), kvString(feeOnly))
				}
			}
			if wrote || (len(res.Outputs) < len(t.Actions) && len(t.Actions[len(res.Outputs)].Steps) > 1) {
				r.Distinct("f:" + l)
			}
		}
	}
}

// ---------------------------------------------------------------- the sequence as a real block

type seqTx struct {
	t    *C03Tx
	o    TxOutcome
	line string
}

// plainTiming: the tx can be re-signed relative to the wall clock without changing any of its
// time-dependent checks (needed for Builder.BuildBlock, which uses time.Now()).
func (t *C03Tx) plainTiming(window int64) bool {
	off := t.TS - t.Now
	if off < 5000 || off > window-5000 || off%1000 != 0 {
		return false
	}
	if t.AuthS >= 0 || t.AuthE >= 0 {
		return false
	}
	for _, a := range t.Actions {
		if a.Start >= 0 || a.End >= 0 {
			return false
		}
	}
	return true
}

// runC03Block runs the transactions of the current sequence through the real
// Processor.Execute and Builder.BuildBlock on the sequence's parent storage and compares with
// what the one-by-one replay (c) produced.
//   proc    = Processor.Execute on the block of the transactions that were committed one by one
//   procall = Processor.Execute on the block of ALL transactions (any failing tx => invalid block)
//   build   = Builder.BuildBlock with all transactions in the mempool (re-signed at wall-clock time)
func runC03Block(r *verifh.Run, rb *RealBlocks, env *Env, c *Chain, seq []seqTx, tag, l string) {
	if len(seq) > 0 {
		for _, x := range seq[1:] {
			if x.t.Prices != seq[0].t.Prices || x.t.Now != seq[0].t.Now {
				r.Emit(l, "mixed")
				return
			}
		}
	}
	var viol []func()
	v := func(key, format string, a ...any) { viol = append(viol, func() { r.Violation(key, format, a...) }) }
	prices, now := fees.Dimensions{}, C03Now
	if len(seq) > 0 {
		prices, now = seq[0].t.Prices, seq[0].t.Now
	}
	rules := BlockRules(prices)
	fresh := func(t *C03Tx, ts int64) *chain.Transaction {
		cp := *t
		cp.TS = ts
		cp.Actions = nil
		if cp.ActionsRaw != "none" {
			for _, as := range strings.Split(cp.ActionsRaw, "|") {
				a, err := ParseScriptAction(as)
				if err != nil {
					panic(err)
				}
				cp.Actions = append(cp.Actions, a)
			}
		}
		tx, err := cp.Build(env)
		if err != nil {
			panic(err)
		}
		return tx
	}
	var okTxs, allTxs []*chain.Transaction
	var okRes []*chain.Result
	allOk, plain := true, true
	for _, x := range seq {
		allTxs = append(allTxs, fresh(x.t, x.t.TS))
		if x.o.Stage == "ok" {
			okTxs = append(okTxs, fresh(x.t, x.t.TS))
			okRes = append(okRes, x.o.Result)
		} else {
			allOk = false
		}
		plain = plain && x.t.plainTiming(env.Rules.GetValidityWindow())
	}
	want := c.Visible()

	// ---- proc
	pv := rb.Verify(rules, c.Base, now, okTxs)
	proc := ErrTag(pv.Err)
	if pv.Err == nil {
		proc = fmt.Sprintf("ok n=%d state=%s", len(pv.Results), StateStringOf(c.Universe, pv.State))
		if pv.Prices != prices {
			v("harness-prices", "processor used unit prices %v, op lines say %v", pv.Prices, prices)
		}
		for i := range okRes {
			if i < len(pv.Results) && !ResultsEqual(okRes[i], pv.Results[i]) {
				v("processor-result-differs", "tx %d: Processor.Execute result %+v, one-by-one execution %+v", i, pv.Results[i], okRes[i])
				break
			}
		}
		if !mapsEqual(pv.State, want) {
			v("success-effects-not-applied-in-block", "post-state of Processor.Execute %s differs from fee + action effects of its transactions %s", kvString(pv.State), kvString(want))
		}
	} else {
		v("valid-block-rejected", "Processor.Execute rejects a block of transactions that each pay their fee: %v", pv.Err)
	}

	// ---- procall
	procall := "ok"
	if !allOk {
		pa := rb.Verify(rules, c.Base, now, allTxs)
		if pa.Err != nil {
			procall = "err"
		} else {
			v("block-with-failing-tx-accepted", "Processor.Execute accepted a block containing a transaction whose PreExecute/Execute fails")
		}
	} else if pv.Err != nil {
		procall = "err"
	}

	// ---- build
	build := "na"
	if plain {
		base := (time.Now().UnixMilli() / 1000) * 1000
		var btxs []*chain.Transaction
		for _, x := range seq {
			btxs = append(btxs, fresh(x.t, base+(x.t.TS-x.t.Now)))
		}
		built, ver := rb.Build(rules, c.Base, btxs)
		if built.Err != nil {
			build = "abort:" + ClassErr(built.Err)
			explained := false
			for _, x := range seq {
				if x.o.Stage == "exec" && !x.t.UnitsErr && BigFee(x.t.Prices, x.t.Units).Sign() == 0 {
					explained = true
				}
			}
			if explained {
				v("build-aborts-on-zero-fee-absent-sponsor", "Builder.BuildBlock returned %v: a zero-fee tx whose sponsor has no balance record passes PreExecute, Execute errors, and the whole build is aborted", built.Err)
			} else {
				v("build-aborted", "Builder.BuildBlock returned %v", built.Err)
			}
		} else {
			in := map[ids.ID]bool{}
			for _, tx := range built.Txs {
				in[tx.GetID()] = true
			}
			flags := make([]string, len(seq))
			same := true
			for i, x := range seq {
				flags[i] = "0"
				if in[btxs[i].GetID()] {
					flags[i] = "1"
				}
				if in[btxs[i].GetID()] != (x.o.Stage == "ok") {
					same = false
				}
			}
			build = "ok inc=" + strings.Join(flags, ",")
			if len(flags) == 0 {
				build = "ok inc=none"
			}
			if !same {
				v("builder-includes-differ", "Builder.BuildBlock included %v, one-by-one execution committed a different set", flags)
			}
			switch {
			case ver.Err != nil:
				v("built-block-rejected", "Processor.Execute rejects the block the builder produced: %v", ver.Err)
			case !mapsEqual(built.State, ver.State):
				v("builder-verifier-state-differ", "builder post-state %s, verifier post-state %s", kvString(built.State), kvString(ver.State))
			case same && !mapsEqual(built.State, want):
				v("success-effects-not-applied-in-block", "post-state of the built block %s differs from fee + action effects of its transactions %s", kvString(built.State), kvString(want))
			}
		}
	}
	r.Emit(l, fmt.Sprintf("proc=%s procall=%s build=%s", proc, procall, build))
	for _, f := range viol {
		f()
	}
	r.Count("block-build:" + strings.SplitN(build, " ", 2)[0])
	_ = tag
}
