// Shared body of the C27 harness (overlaid as /repo/internal/verifx/c27.go); used with the
// prefix balance handler (package chain) and the reference VM's handler (examples/morpheusvm).
package verifx

import (
	"bytes"
	"context"
	"encoding/binary"
	"encoding/json"
	"errors"
	"fmt"
	"math/bits"
	"sort"
	"strconv"
	"strings"

	"github.com/ava-labs/avalanchego/database/memdb"
	"github.com/ava-labs/avalanchego/trace"
	"github.com/ava-labs/avalanchego/utils/logging"
	"github.com/ava-labs/avalanchego/x/merkledb"

	"github.com/ava-labs/hypersdk/chain"
	"github.com/ava-labs/hypersdk/codec"
	"github.com/ava-labs/hypersdk/fees"
	"github.com/ava-labs/hypersdk/genesis"
	"github.com/ava-labs/hypersdk/internal/verifh"
	"github.com/ava-labs/hypersdk/internal/window"
	"github.com/ava-labs/hypersdk/keys"
	"github.com/ava-labs/hypersdk/state/balance"
	"github.com/ava-labs/hypersdk/state/metadata"
	"github.com/ava-labs/hypersdk/state/tstate"

	safemath "github.com/ava-labs/avalanchego/utils/math"
	internalfees "github.com/ava-labs/hypersdk/internal/fees"
)

// C27: NewGenesisCommit(DefaultGenesis) on a fresh merkledb yields exactly the allocation
// sums + height 0 + timestamp 0 + fee manager with the minimum prices; its root is the
// genesis block's StateRoot; overflowing totals are rejected.
//
// op line: gen <balance prefix> <height prefix> <timestamp prefix> <fee prefix> <p0,..,p4> <addr:bal>*
// C27Handler says which balance handler the run uses: New builds it for a balance prefix and
// returns its key function; Fixed != nil restricts the run to that prefix (a handler with a
// hard-wired prefix).
type C27Handler struct {
	New   func(prefix []byte) (chain.BalanceHandler, func(codec.Address) []byte)
	Fixed []byte
}

func RunC27(r *verifh.Run, h C27Handler) {
	c27Facts(r)
	lines := r.ReplayLines()
	if lines == nil {
		lines = c27Generate(r, h)
	}
	for _, l := range lines {
		c27Exec(r, l, h)
	}
}

type c27Alloc struct {
	addr []byte
	bal  uint64
}

func c27NewDB() merkledb.MerkleDB {
	db, err := merkledb.New(context.Background(), memdb.New(), merkledb.Config{
		BranchFactor: merkledb.BranchFactor16,
		Tracer:       trace.Noop,
	})
	if err != nil {
		panic(err)
	}
	return db
}

func c27Facts(r *verifh.Run) {
	r.Fact("addressLen", codec.AddressLen)
	r.Fact("balanceChunks", balance.BalanceChunks)
	cs := 1
	for ; cs < 1<<16; cs++ {
		if n, _ := keys.NumChunks(make([]byte, cs)); n == 2 {
			break
		}
	}
	r.Fact("chunkSize", cs)
	r.Fact("feeDimensions", fees.FeeDimensions)
	r.Fact("feeKeyChunks", chain.FeeKeyChunks)
	r.Fact("heightKeyChunks", chain.HeightKeyChunks)
	r.Fact("timestampKeyChunks", chain.TimestampKeyChunks)
	r.Fact("windowSliceSize", window.WindowSliceSize)
	rules := genesis.NewDefaultRules()
	blk, _, err := chain.NewGenesisCommit(context.Background(), c27NewDB(), genesis.NewDefaultGenesis(nil),
		metadata.NewDefaultManager(), balance.NewPrefixBalanceHandler([]byte{metadata.DefaultMinimumPrefix}),
		&genesis.ImmutableRuleFactory{Rules: rules}, trace.Noop, logging.NoLog{})
	if err != nil {
		panic(err)
	}
	r.Fact("genesisHeaderHeight", blk.Hght)
	r.Fact("genesisHeaderTimestamp", blk.Tmstmp)
}

// c27Line without a rule change: the same minimum prices at every time.
func c27Line(bp, hp, tp, fp []byte, prices [fees.FeeDimensions]uint64, allocs []c27Alloc) string {
	return c27LineSw(bp, hp, tp, fp, prices, 0, prices, allocs)
}

// c27RF is a time-dependent rule factory: rules r1 before time sw, r2 from sw on.
type c27RF struct {
	sw     int64
	r1, r2 *genesis.Rules
}

func (f *c27RF) GetRules(t int64) chain.Rules {
	if t < f.sw {
		return f.r1
	}
	return f.r2
}

func c27Dims(p [fees.FeeDimensions]uint64) string {
	w := make([]string, len(p))
	for i, x := range p {
		w[i] = strconv.FormatUint(x, 10)
	}
	return strings.Join(w, ",")
}

func c27LineSw(bp, hp, tp, fp []byte, prices [fees.FeeDimensions]uint64, sw int64, prices2 [fees.FeeDimensions]uint64, allocs []c27Alloc) string {
	var sb strings.Builder
	fmt.Fprintf(&sb, "gen %s %s %s %s %s %d %s", verifh.Hex(bp), verifh.Hex(hp), verifh.Hex(tp), verifh.Hex(fp), c27Dims(prices), sw, c27Dims(prices2))
	for _, a := range allocs {
		fmt.Fprintf(&sb, " %s:%d", verifh.Hex(a.addr), a.bal)
	}
	return sb.String()
}

func c27Addr(b byte) []byte {
	a := make([]byte, codec.AddressLen)
	a[0] = b
	a[codec.AddressLen-1] = b ^ 0x5a
	return a
}

func c27Generate(r *verifh.Run, h C27Handler) []string {
	const max = ^uint64(0)
	def := [fees.FeeDimensions]uint64{100, 100, 100, 100, 100}
	bp, hp, tp, fp := []byte{3}, []byte{0}, []byte{1}, []byte{2}
	a, b, c := c27Addr(1), c27Addr(2), c27Addr(3)
	mk := func(as ...c27Alloc) string { return c27Line(bp, hp, tp, fp, def, as) }
	// corpus: boundaries of the property first
	lines := []string{
		mk(),
		mk(c27Alloc{a, 5}),
		mk(c27Alloc{a, 0}),
		mk(c27Alloc{a, 5}, c27Alloc{a, 7}, c27Alloc{b, 0}, c27Alloc{a, 0}),
		mk(c27Alloc{a, max}),
		mk(c27Alloc{a, max}, c27Alloc{b, 0}),
		mk(c27Alloc{a, max - 1}, c27Alloc{b, 1}),
		mk(c27Alloc{a, max - 1}, c27Alloc{a, 1}),
		mk(c27Alloc{a, max}, c27Alloc{b, 1}),           // total 2^64
		mk(c27Alloc{a, max}, c27Alloc{a, 1}),           // per-address overflow
		mk(c27Alloc{a, 1 << 63}, c27Alloc{b, 1 << 63}), // total 2^64
		mk(c27Alloc{a, 1 << 63}, c27Alloc{b, 1<<63 - 1}, c27Alloc{c, 0}),
		mk(c27Alloc{a, 1}, c27Alloc{b, max}, c27Alloc{c, 3}), // overflow in the middle
		c27Line(bp, hp, tp, fp, [fees.FeeDimensions]uint64{0, 1, max, 1 << 63, 256}, []c27Alloc{{a, 1}}),
		// time-dependent rule factory: the minimum prices change at time sw
		c27LineSw(bp, hp, tp, fp, def, 1, [fees.FeeDimensions]uint64{7, 7, 7, 7, 7}, []c27Alloc{{a, 1}}),
		c27LineSw(bp, hp, tp, fp, def, 1000, [fees.FeeDimensions]uint64{1, 2, 3, 4, 5}, []c27Alloc{{a, 1}}),
		c27LineSw(bp, hp, tp, fp, def, 1672531200000, [fees.FeeDimensions]uint64{1, 2, 3, 4, 5}, nil),
		c27LineSw(bp, hp, tp, fp, def, 1672531200001, [fees.FeeDimensions]uint64{1, 2, 3, 4, 5}, nil),
		c27LineSw(bp, hp, tp, fp, def, 0, [fees.FeeDimensions]uint64{1, 2, 3, 4, 5}, nil),
		c27LineSw(bp, hp, tp, fp, def, -5, [fees.FeeDimensions]uint64{1, 2, 3, 4, 5}, nil),
		// conflicting prefixes (tie only): balance prefix = height prefix, timestamp = height,
		// and a metadata key equal to a balance key
		c27Line([]byte{0}, hp, tp, fp, def, []c27Alloc{{a, 9}}),
		c27Line(bp, hp, hp, fp, def, []c27Alloc{{a, 9}}),
		c27Line(bp, append(append([]byte{}, bp...), a...), tp, fp, def, []c27Alloc{{a, 9}, {b, 4}}),
		c27Line(bp, hp, tp, hp, def, []c27Alloc{{a, 9}}),
		c27Line(nil, nil, []byte{1}, []byte{2}, def, []c27Alloc{{a, 9}}),
	}
	pool := [][]byte{a, b, c, c27Addr(4), make([]byte, codec.AddressLen)}
	for i := 0; i < r.N(1500, 40000); i++ {
		n := r.RNG.Intn(9)
		as := make([]c27Alloc, n)
		mode := r.RNG.Intn(5)
		var budget uint64 = max
		if mode == 1 {
			budget = max - uint64(r.RNG.Intn(3)) // aim just under/at the top
		}
		for j := range as {
			as[j].addr = pool[r.RNG.Intn(len(pool))]
			switch mode {
			case 0: // small, many duplicates and zeros
				as[j].bal = uint64(r.RNG.Intn(4))
			case 1, 2: // split a total of (almost) 2^64-1, maybe one over
				if j == n-1 {
					as[j].bal = budget
					if mode == 2 && r.RNG.Bool() {
						as[j].bal = budget + uint64(r.RNG.Intn(2)) // may wrap to 0 when budget==max: fine
					}
				} else {
					x := r.RNG.U64() % (budget/2 + 1)
					if r.RNG.Chance(30) {
						x = 0
					}
					as[j].bal = x
					budget -= x
				}
			default:
				as[j].bal = r.RNG.Pick64()
			}
		}
		if mode == 2 && n > 0 && r.RNG.Chance(40) { // push the total to exactly 2^64 or beyond
			as = append(as, c27Alloc{pool[r.RNG.Intn(len(pool))], 1 + uint64(r.RNG.Intn(2))})
		}
		pr := def
		if r.RNG.Chance(60) {
			for d := range pr {
				pr[d] = r.RNG.Pick64()
			}
		}
		xbp, xhp, xtp, xfp := bp, hp, tp, fp
		if r.RNG.Chance(25) {
			rp := func() []byte {
				switch r.RNG.Intn(4) {
				case 0:
					return []byte{byte(r.RNG.Intn(4))}
				case 1:
					return r.RNG.Bytes(r.RNG.Intn(4))
				case 2:
					return []byte{byte(r.RNG.Intn(4)), byte(r.RNG.Intn(2))}
				default:
					return []byte{byte(4 + r.RNG.Intn(250))}
				}
			}
			xbp, xhp, xtp, xfp = rp(), rp(), rp(), rp()
		}
		if r.RNG.Chance(40) {
			pr2 := pr
			for d := range pr2 {
				pr2[d] = r.RNG.Pick64()
			}
			sws := []int64{-1, 0, 1, 1000, 1_000_000_000_000, 1672531199999, 1672531200000, 1672531200001, 1 << 62}
			lines = append(lines, c27LineSw(xbp, xhp, xtp, xfp, pr, sws[r.RNG.Intn(len(sws))], pr2, as))
			continue
		}
		lines = append(lines, c27Line(xbp, xhp, xtp, xfp, pr, as))
	}
	if h.Fixed != nil { // only lines this handler can run
		kept := lines[:0]
		for _, l := range lines {
			if f := verifh.Fields(l); f[1] == verifh.Hex(h.Fixed) {
				kept = append(kept, l)
			}
		}
		lines = kept
	}
	return lines
}

func c27Parse(l string) (bp, hp, tp, fp []byte, prices [fees.FeeDimensions]uint64, sw int64, prices2 [fees.FeeDimensions]uint64, allocs []c27Alloc, ok bool) {
	f := verifh.Fields(l)
	if len(f) < 8 || f[0] != "gen" {
		return
	}
	var err error
	pf := make([][]byte, 4)
	for i := range pf {
		if pf[i], err = verifh.UnHex(f[1+i]); err != nil {
			return
		}
	}
	for k, field := range []string{f[5], f[7]} {
		ps := strings.Split(field, ",")
		if len(ps) != fees.FeeDimensions {
			return
		}
		for i, p := range ps {
			v, perr := strconv.ParseUint(p, 10, 64)
			if perr != nil {
				return
			}
			if k == 0 {
				prices[i] = v
			} else {
				prices2[i] = v
			}
		}
	}
	if sw, err = strconv.ParseInt(f[6], 10, 64); err != nil {
		return
	}
	for _, w := range f[8:] {
		ab := strings.Split(w, ":")
		if len(ab) != 2 {
			return
		}
		addr, err := verifh.UnHex(ab[0])
		if err != nil || len(addr) != codec.AddressLen {
			return
		}
		bal, err := strconv.ParseUint(ab[1], 10, 64)
		if err != nil {
			return
		}
		allocs = append(allocs, c27Alloc{addr, bal})
	}
	return pf[0], pf[1], pf[2], pf[3], prices, sw, prices2, allocs, true
}

type c27KV struct{ k, v []byte }

func c27Exec(r *verifh.Run, l string, h C27Handler) {
	bp, hp, tp, fp, prices1, sw, prices2, allocs, ok := c27Parse(l)
	if !ok {
		r.Emit(l, "bad-op")
		return
	}
	if h.Fixed != nil && !bytes.Equal(bp, h.Fixed) {
		return // not a line for this handler
	}
	ctx := context.Background()
	rules := genesis.NewDefaultRules()
	rules.MinUnitPrice = prices1
	rules2 := genesis.NewDefaultRules()
	rules2.MinUnitPrice = prices2
	rf := &c27RF{sw: sw, r1: rules, r2: rules2}
	// the property's "minimum prices" are those of the rules in force at the genesis *state*
	// timestamp 0 (the reading the unchanged code implements: ruleFactory.GetRules(0))
	prices := rf.GetRules(0).GetMinUnitPrice()
	if prices1 != prices2 {
		r.Count("rule-change:" + c27SwClass(sw))
	}
	g := genesis.NewDefaultGenesis(nil)
	g.Rules = rules
	for _, a := range allocs {
		g.CustomAllocation = append(g.CustomAllocation, &genesis.CustomAllocation{Address: codec.Address(a.addr), Balance: a.bal})
	}
	mm := metadata.NewManager(hp, fp, tp)
	bh, keyOf := h.New(bp)
	db := c27NewDB()
	blk, view, err := chain.NewGenesisCommit(ctx, db, g, mm, bh, rf, trace.Noop, logging.NoLog{})

	// the same genesis value must give the same chain every time it is used: (1) the object
	// is not altered by InitializeState, (2) a second initialisation of the SAME object on a
	// fresh database and (3) one after a JSON round trip of the object equal the
	// initialisation of a pristine object built from the op line.
	mutated := len(g.CustomAllocation) != len(allocs)
	for i := 0; !mutated && i < len(allocs); i++ {
		mutated = g.CustomAllocation[i] == nil || !bytes.Equal(g.CustomAllocation[i].Address[:], allocs[i].addr) || g.CustomAllocation[i].Balance != allocs[i].bal
	}
	pristine := genesis.NewDefaultGenesis(nil)
	pristine.Rules = rules
	for _, a := range allocs {
		pristine.CustomAllocation = append(pristine.CustomAllocation, &genesis.CustomAllocation{Address: codec.Address(a.addr), Balance: a.bal})
	}
	fpRef := c27Fingerprint(pristine, mm, bh, rf)
	fpAgain := c27Fingerprint(g, mm, bh, rf)
	fpJSON := "json-error"
	if raw, jerr := json.Marshal(g); jerr == nil {
		g3 := &genesis.DefaultGenesis{}
		if jerr = json.Unmarshal(raw, g3); jerr == nil && g3.Rules != nil {
			fpJSON = c27Fingerprint(g3, mm, bh, rf)
		}
	}
	same := func(a string) string {
		if a == fpRef {
			return "same"
		}
		return "diff"
	}
	reuse := fmt.Sprintf(" again=%s json=%s mut=%v", same(fpAgain), same(fpJSON), mutated)
	reuseOracle := func() { // called right after the line is emitted
		if mutated {
			r.Violation("genesis-object-mutated", "InitializeState altered the genesis object's allocation list: %s", l)
		}
		if fpAgain != fpRef || fpJSON != fpRef {
			r.Violation("genesis-not-reusable", "re-initialising the same genesis value gives another state (again=%s json=%s): %s", same(fpAgain), same(fpJSON), l)
		}
	}

	// the property's statement, evaluated independently of the implementation
	total, overflow := uint64(0), false
	sums := map[string]uint64{}
	var order []string
	for _, a := range allocs {
		var carry uint64
		total, carry = bits.Add64(total, a.bal, 0)
		overflow = overflow || carry != 0
		if _, seen := sums[string(a.addr)]; !seen {
			order = append(order, string(a.addr))
		}
		sums[string(a.addr)] += a.bal
	}
	conflict := metadata.HasConflictingPrefixes(mm, [][]byte{bp})
	sig := fmt.Sprintf("n=%d dup=%v zero=%v of=%v top=%v", len(allocs), len(order) < len(allocs), c27HasZero(allocs), overflow, total == ^uint64(0))
	r.Count("allocs:" + strconv.Itoa(len(allocs)))
	if conflict {
		r.Count("prefix-conflict")
	}

	if err != nil {
		kind := "other"
		switch {
		case errors.Is(err, safemath.ErrOverflow):
			kind = "overflow"
		case errors.Is(err, tstate.ErrInvalidKeyValue):
			kind = "keyvalue"
		}
		r.Emit(l, "err "+kind+reuse)
		reuseOracle()
		r.Count("err:" + kind)
		if blk != nil || view != nil {
			r.Violation("error-with-result", "NewGenesisCommit returned an error and a block/view for %s", l)
		}
		if !overflow && !conflict {
			r.Violation("valid-genesis-rejected", "total %d fits in uint64 but NewGenesisCommit failed: %v", total, err)
		}
		if overflow {
			r.Distinct(sig)
		}
		return
	}

	// iterate the complete post-state
	root, rerr := view.GetMerkleRoot(ctx)
	if rerr != nil {
		panic(rerr)
	}
	if cerr := view.CommitToDB(ctx); cerr != nil {
		panic(cerr)
	}
	var ents []c27KV
	it := db.NewIterator()
	for it.Next() {
		ents = append(ents, c27KV{append([]byte{}, it.Key()...), append([]byte{}, it.Value()...)})
	}
	it.Release()
	sort.Slice(ents, func(i, j int) bool { return bytes.Compare(ents[i].k, ents[j].k) < 0 })
	// root: header root = view root = root of an independent merkledb with the same content
	db2 := c27NewDB()
	for _, e := range ents {
		if perr := db2.Put(e.k, e.v); perr != nil {
			panic(perr)
		}
	}
	root2, _ := db2.GetMerkleRoot(ctx)
	rootOK := blk.StateRoot == root && root2 == root
	var sb strings.Builder
	fmt.Fprintf(&sb, "ok hdr=%d:%d:%d rootok=%v n=%d", blk.Hght, blk.Tmstmp, len(blk.Txs), rootOK, len(ents))
	for _, e := range ents {
		fmt.Fprintf(&sb, " %s=%s", verifh.Hex(e.k), verifh.Hex(e.v))
	}
	r.Emit(l, sb.String()+reuse)
	reuseOracle()
	r.Distinct(sig)

	// oracle
	if overflow {
		r.Violation("overflowing-total-accepted", "allocations total >= 2^64 but genesis was accepted: %s", l)
	}
	if !rootOK {
		r.Violation("root-mismatch", "header root %s, view root %s, content root %s", blk.StateRoot, root, root2)
	}
	if conflict {
		return // keys may coincide: "exactly" is only claimed for non-conflicting prefixes
	}
	want := map[string][]byte{
		string(chain.HeightKey(hp)):    binary.BigEndian.AppendUint64(nil, 0),
		string(chain.TimestampKey(tp)): binary.BigEndian.AppendUint64(nil, 0),
	}
	for _, a := range order {
		want[string(keyOf(codec.Address([]byte(a))))] = binary.BigEndian.AppendUint64(nil, sums[a])
	}
	feeKey := string(chain.FeeKey(fp))
	got := map[string][]byte{}
	for _, e := range ents {
		got[string(e.k)] = e.v
		if string(e.k) == feeKey {
			continue
		}
		w, ok := want[string(e.k)]
		if !ok {
			r.Violation("extra-key", "state holds unexpected key %x", e.k)
		} else if !bytes.Equal(w, e.v) {
			r.Violation("wrong-value", "key %x holds %x, want %x", e.k, e.v, w)
		}
	}
	for k := range want {
		if _, ok := got[k]; !ok {
			r.Violation("missing-key", "state lacks key %x", k)
		}
	}
	for _, a := range order {
		if b, gerr := bh.GetBalance(ctx, codec.Address([]byte(a)), db); gerr != nil || b != sums[a] {
			r.Violation("wrong-balance", "GetBalance(%x)=%d,%v want %d", a, b, gerr, sums[a])
		}
	}
	feeRaw, ok := got[feeKey]
	if !ok {
		r.Violation("missing-key", "state lacks the fee key")
		return
	}
	if len(feeRaw) != 8+fees.FeeDimensions*(8+window.WindowSliceSize+8) {
		r.Violation("wrong-fee-state", "fee bytes have length %d", len(feeRaw))
		return
	}
	fm := internalfees.NewManager(feeRaw)
	okFee := binary.BigEndian.Uint64(feeRaw[:8]) == 0
	for d := fees.Dimension(0); d < fees.FeeDimensions; d++ {
		okFee = okFee && fm.UnitPrice(d) == prices[d] && fm.LastConsumed(d) == 0 && fm.Window(d) == window.Window{}
	}
	if !okFee {
		r.Violation("wrong-fee-state", "fee manager %x does not hold the min prices %v of the rules at time 0 with zero window/consumption (rules: %v before %d, %v after)", feeRaw, prices, prices1, sw, prices2)
	}
}

// c27Fingerprint initialises g on a fresh database and renders error class / root / full state.
func c27Fingerprint(g *genesis.DefaultGenesis, mm metadata.MetadataManager, bh chain.BalanceHandler, rf chain.RuleFactory) string {
	ctx := context.Background()
	db := c27NewDB()
	blk, view, err := chain.NewGenesisCommit(ctx, db, g, mm, bh, rf, trace.Noop, logging.NoLog{})
	if err != nil {
		switch {
		case errors.Is(err, safemath.ErrOverflow):
			return "err overflow"
		case errors.Is(err, tstate.ErrInvalidKeyValue):
			return "err keyvalue"
		}
		return "err other"
	}
	if cerr := view.CommitToDB(ctx); cerr != nil {
		panic(cerr)
	}
	var ents []string
	it := db.NewIterator()
	for it.Next() {
		ents = append(ents, verifh.Hex(it.Key())+"="+verifh.Hex(it.Value()))
	}
	it.Release()
	sort.Strings(ents)
	return fmt.Sprintf("root=%s hdr=%d:%d:%d %s", blk.StateRoot, blk.Hght, blk.Tmstmp, len(blk.Txs), strings.Join(ents, " "))
}

func c27SwClass(sw int64) string {
	const hdr = 1672531200000
	switch {
	case sw <= 0:
		return "at-or-before-0"
	case sw <= hdr:
		return "in-(0,header-ts]"
	default:
		return "after-header-ts"
	}
}

func c27HasZero(as []c27Alloc) bool {
	for _, a := range as {
		if a.bal == 0 {
			return true
		}
	}
	return false
}
