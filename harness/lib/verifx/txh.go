// Package verifx is the part of the /verif correspondence harness shared by the
// transaction-execution properties (C03, C06, C07). Like verifh it is never committed to
// /repo: `go test -overlay` maps it to /repo/internal/verifx at build time.
package verifx

import (
	"context"
	"errors"
	"fmt"
	"math/big"
	"sort"
	"strconv"
	"strings"

	"github.com/ava-labs/avalanchego/ids"

	"github.com/ava-labs/hypersdk/chain"
	"github.com/ava-labs/hypersdk/chain/chaintest"
	"github.com/ava-labs/hypersdk/codec"
	"github.com/ava-labs/hypersdk/fees"
	"github.com/ava-labs/hypersdk/genesis"
	"github.com/ava-labs/hypersdk/internal/verifh"
	"github.com/ava-labs/hypersdk/state"
	"github.com/ava-labs/hypersdk/state/tstate"

	internalfees "github.com/ava-labs/hypersdk/internal/fees"
)

// ---------------------------------------------------------------- scripted action

var ErrScript = errors.New("verif scripted action failure")

type Step struct {
	Kind     byte // 'r' read, 'w' write, 'd' delete, 'x' fail
	Key, Val []byte
}

// ScriptAction is a chain.Action that performs a fixed list of state operations through
// state.Mutable and stops at the first error. Output = concatenation of the values read.
type ScriptAction struct {
	Steps      []Step
	Declared   state.Keys
	CU         uint64
	Start, End int64
}

var _ chain.Action = (*ScriptAction)(nil)

func (*ScriptAction) GetTypeID() uint8 { return 0xEE }

func (a *ScriptAction) ValidRange(chain.Rules) (int64, int64) { return a.Start, a.End }

func (a *ScriptAction) ComputeUnits(chain.Rules) uint64 { return a.CU }

func (a *ScriptAction) StateKeys(codec.Address, ids.ID) state.Keys {
	out := make(state.Keys, len(a.Declared))
	for k, v := range a.Declared {
		out[k] = v
	}
	return out
}

// Bytes is a deterministic, length-prefixed rendering (never parsed back).
func (a *ScriptAction) Bytes() []byte {
	b := []byte{0xEE}
	put := func(x []byte) {
		b = append(b, byte(len(x)>>8), byte(len(x)))
		b = append(b, x...)
	}
	ks := make([]string, 0, len(a.Declared))
	for k := range a.Declared {
		ks = append(ks, k)
	}
	sort.Strings(ks)
	b = append(b, byte(len(ks)))
	for _, k := range ks {
		put([]byte(k))
		b = append(b, byte(a.Declared[k]))
	}
	b = append(b, byte(len(a.Steps)))
	for _, s := range a.Steps {
		b = append(b, s.Kind)
		put(s.Key)
		put(s.Val)
	}
	return b
}

func (a *ScriptAction) Execute(ctx context.Context, _ chain.Rules, mu state.Mutable, _ int64, _ codec.Address, _ ids.ID) ([]byte, error) {
	out := []byte{}
	for _, s := range a.Steps {
		switch s.Kind {
		case 'r':
			v, err := mu.GetValue(ctx, s.Key)
			if err != nil {
				return nil, err
			}
			out = append(out, v...)
		case 'w':
			if err := mu.Insert(ctx, s.Key, s.Val); err != nil {
				return nil, err
			}
		case 'd':
			if err := mu.Remove(ctx, s.Key); err != nil {
				return nil, err
			}
		default:
			return nil, ErrScript
		}
	}
	return out, nil
}

// ParseScriptAction parses `.` | steps[@start:end], steps = `r:k`,`w:k:v`,`d:k`,`x` joined by `,`.
func ParseScriptAction(s string) (*ScriptAction, error) {
	a := &ScriptAction{CU: 1, Start: -1, End: -1, Declared: state.Keys{}}
	if i := strings.IndexByte(s, '^'); i >= 0 { // `^<compute units>`
		cu, err := strconv.ParseUint(s[i+1:], 10, 64)
		if err != nil {
			return nil, err
		}
		a.CU = cu
		s = s[:i]
	}
	if i := strings.IndexByte(s, '@'); i >= 0 {
		se := strings.Split(s[i+1:], ":")
		if len(se) != 2 {
			return nil, fmt.Errorf("bad range")
		}
		var err error
		if a.Start, err = strconv.ParseInt(se[0], 10, 64); err != nil {
			return nil, err
		}
		if a.End, err = strconv.ParseInt(se[1], 10, 64); err != nil {
			return nil, err
		}
		s = s[:i]
	}
	if s == "." {
		return a, nil
	}
	for _, st := range strings.Split(s, ",") {
		f := strings.Split(st, ":")
		switch {
		case len(f) == 1 && f[0] == "x":
			a.Steps = append(a.Steps, Step{Kind: 'x'})
		case len(f) == 2 && (f[0] == "r" || f[0] == "d"):
			k, err := verifh.UnHex(f[1])
			if err != nil {
				return nil, err
			}
			a.Steps = append(a.Steps, Step{Kind: f[0][0], Key: k})
		case len(f) == 3 && f[0] == "w":
			k, err := verifh.UnHex(f[1])
			if err != nil {
				return nil, err
			}
			v, err := verifh.UnHex(f[2])
			if err != nil {
				return nil, err
			}
			a.Steps = append(a.Steps, Step{Kind: 'w', Key: k, Val: v})
		default:
			return nil, fmt.Errorf("bad step %q", st)
		}
	}
	return a, nil
}

// ---------------------------------------------------------------- parsing helpers

func ParseDims(s string) (fees.Dimensions, error) {
	var d fees.Dimensions
	f := strings.Split(s, ",")
	if len(f) != fees.FeeDimensions {
		return d, fmt.Errorf("want %d dims", fees.FeeDimensions)
	}
	for i, x := range f {
		v, err := strconv.ParseUint(x, 10, 64)
		if err != nil {
			return d, err
		}
		d[i] = v
	}
	return d, nil
}

func DimsString(d fees.Dimensions) string {
	f := make([]string, len(d))
	for i, x := range d {
		f[i] = strconv.FormatUint(x, 10)
	}
	return strings.Join(f, ",")
}

func ParseAddr(s string) (codec.Address, error) {
	var a codec.Address
	b, err := verifh.UnHex(s)
	if err != nil {
		return a, err
	}
	if len(b) != codec.AddressLen {
		return a, fmt.Errorf("address length %d", len(b))
	}
	copy(a[:], b)
	return a, nil
}

// ParseKV parses `k=v,k=v` (hex, `-` = empty) or `-`.
func ParseKV(s string) (map[string][]byte, error) {
	out := map[string][]byte{}
	if s == "-" {
		return out, nil
	}
	for _, kv := range strings.Split(s, ",") {
		f := strings.Split(kv, "=")
		if len(f) != 2 {
			return nil, fmt.Errorf("bad kv %q", kv)
		}
		k, err := verifh.UnHex(f[0])
		if err != nil {
			return nil, err
		}
		v, err := verifh.UnHex(f[1])
		if err != nil {
			return nil, err
		}
		out[string(k)] = v
	}
	return out, nil
}

// ParseScope parses `k:perm,...` or `-`.
func ParseScope(s string) (state.Keys, error) {
	out := state.Keys{}
	if s == "-" {
		return out, nil
	}
	for _, kp := range strings.Split(s, ",") {
		f := strings.Split(kp, ":")
		if len(f) != 2 {
			return nil, fmt.Errorf("bad scope %q", kp)
		}
		k, err := verifh.UnHex(f[0])
		if err != nil {
			return nil, err
		}
		p, err := strconv.ParseUint(f[1], 10, 8)
		if err != nil {
			return nil, err
		}
		if _, dup := out[string(k)]; dup {
			return nil, fmt.Errorf("duplicate scope key")
		}
		out[string(k)] = state.Permissions(p)
	}
	return out, nil
}

func ParseKeys(s string) ([][]byte, error) {
	var out [][]byte
	if s == "-" {
		return out, nil
	}
	for _, h := range strings.Split(s, ",") {
		k, err := verifh.UnHex(h)
		if err != nil {
			return nil, err
		}
		out = append(out, k)
	}
	return out, nil
}

// ---------------------------------------------------------------- error classes

// Class maps an error (or a Result.Error message) to the model's error enum.
func Class(msg string) string {
	switch {
	case msg == "":
		return "-"
	case strings.Contains(msg, ErrScript.Error()), strings.Contains(msg, chaintest.ErrTestActionExecute.Error()):
		return "script"
	case strings.Contains(msg, "invalid key or key permission"):
		return "perm"
	case strings.Contains(msg, "invalid key or value"):
		return "badvalue"
	case strings.Contains(msg, "insufficient balance"):
		return "insufficient"
	case strings.Contains(msg, "invalid balance"):
		return "invalidbalance"
	case strings.Contains(msg, "value has unexpected size"):
		return "parse"
	case strings.Contains(msg, "value is zero"):
		return "valuezero"
	case strings.Contains(msg, "memo is too large"):
		return "memo"
	case strings.Contains(msg, "failed to calculate tx units"):
		return "units"
	case strings.Contains(msg, "invalid units consumed"):
		return "blockunits"
	case strings.Contains(msg, "duplicate transaction"):
		return "duplicate"
	case strings.Contains(msg, "test auth verification error"):
		return "badauth"
	case strings.Contains(msg, "overflow"):
		return "overflow"
	case strings.Contains(msg, "invalid chain ID"):
		return "chainid"
	case strings.Contains(msg, "misaligned time"):
		return "misaligned"
	case strings.Contains(msg, "declared timestamp expired"):
		return "expired"
	case strings.Contains(msg, "declared timestamp too far in the future"):
		return "future"
	case strings.Contains(msg, "too many actions"):
		return "toomany"
	case strings.Contains(msg, "action not activated"):
		return "actionrange"
	case strings.Contains(msg, "auth not activated"):
		return "authrange"
	case strings.Contains(msg, "not found"):
		return "notfound"
	}
	return "other(" + strings.ReplaceAll(msg, " ", "_") + ")"
}

func ClassErr(err error) string {
	if err == nil {
		return "-"
	}
	return Class(err.Error())
}

// ---------------------------------------------------------------- block-level state

// Chain is the state a block is executed on: an immutable base (the parent view) plus the
// block's TState; every transaction runs in its own TStateView exactly as in
// Processor.executeTxs / Builder.BuildBlock.
type Chain struct {
	Base     map[string][]byte
	TS       *tstate.TState
	Universe [][]byte
}

func NewChain(universe [][]byte, init map[string][]byte) *Chain {
	return &Chain{Base: init, TS: tstate.New(16), Universe: universe}
}

// Visible returns the block-level visible state (base overlaid with the TState diff).
func (c *Chain) Visible() map[string][]byte {
	out := make(map[string][]byte, len(c.Base))
	for k, v := range c.Base {
		out[k] = v
	}
	for k, v := range c.TS.ChangedKeys() {
		if v.IsNothing() {
			delete(out, k)
		} else {
			out[k] = v.Value()
		}
	}
	return out
}

// StateString renders the visible state, sorted; keys outside the declared universe are
// flagged (the model only prints the universe).
func (c *Chain) StateString() string {
	vis := c.Visible()
	inU := map[string]bool{}
	for _, k := range c.Universe {
		inU[string(k)] = true
	}
	ks := make([]string, 0, len(vis))
	for k := range vis {
		ks = append(ks, k)
	}
	sort.Strings(ks)
	var parts []string
	for _, k := range ks {
		p := verifh.Hex([]byte(k)) + "=" + verifh.Hex(vis[k])
		if !inU[k] {
			p = "!outside-universe:" + p
		}
		parts = append(parts, p)
	}
	if len(parts) == 0 {
		return "empty"
	}
	return strings.Join(parts, ",")
}

// DiffString renders the block diff (TState.ChangedKeys), sorted: `k=v`, `k=~` for a delete.
func (c *Chain) DiffString() string {
	ch := c.TS.ChangedKeys()
	ks := make([]string, 0, len(ch))
	for k := range ch {
		ks = append(ks, k)
	}
	sort.Strings(ks)
	parts := make([]string, 0, len(ks))
	for _, k := range ks {
		if ch[k].IsNothing() {
			parts = append(parts, verifh.Hex([]byte(k))+"=~")
		} else {
			parts = append(parts, verifh.Hex([]byte(k))+"="+verifh.Hex(ch[k].Value()))
		}
	}
	if len(parts) == 0 {
		return "none"
	}
	return strings.Join(parts, ",")
}

// Storage mimics the fetcher: the values of the declared keys as found in the parent view.
func (c *Chain) Storage(keys state.Keys) state.ImmutableStorage {
	st := make(map[string][]byte, len(keys))
	for k := range keys {
		if v, ok := c.Base[k]; ok {
			st[k] = v
		}
	}
	return state.ImmutableStorage(st)
}

// ---------------------------------------------------------------- rules / fees

type Env struct {
	Rules   *genesis.Rules
	ChainID ids.ID
}

func NewEnv() *Env {
	r := genesis.NewDefaultRules()
	return &Env{Rules: r, ChainID: r.GetChainID()}
}

func FeeManager(prices fees.Dimensions) *internalfees.Manager {
	fm := internalfees.NewManager(nil)
	for i := fees.Dimension(0); i < fees.FeeDimensions; i++ {
		fm.SetUnitPrice(i, prices[i])
	}
	return fm
}

// BigFee is Σ price·units computed in unbounded integers (independent of the code under test).
func BigFee(prices, units fees.Dimensions) *big.Int {
	s := new(big.Int)
	for i := range prices {
		s.Add(s, new(big.Int).Mul(new(big.Int).SetUint64(prices[i]), new(big.Int).SetUint64(units[i])))
	}
	return s
}

// ---------------------------------------------------------------- one transaction

type TxOutcome struct {
	Stage  string // "pre" | "exec" | "ok"
	Err    error
	Result *chain.Result
	// PostFeeOnly is what the view showed right after a fee-only execution (same tx without
	// actions is not available, so this is reconstructed by the callers that need it).
}

// Process runs one transaction on the chain state as the processor does: fresh view with the
// declared scope, PreExecute, Execute, Commit only when both succeed.
func (c *Chain) Process(ctx context.Context, env *Env, bh chain.BalanceHandler, prices fees.Dimensions, tx *chain.Transaction, now int64) TxOutcome {
	fm := FeeManager(prices)
	stateKeys, err := tx.StateKeys(bh)
	if err != nil {
		return TxOutcome{Stage: "pre", Err: fmt.Errorf("failed to calculate tx units: %w", err)}
	}
	tsv := c.TS.NewView(stateKeys, c.Storage(stateKeys), len(stateKeys))
	if err := tx.PreExecute(ctx, fm, bh, env.Rules, tsv, now); err != nil {
		if _, uerr := tx.Units(bh, env.Rules); uerr != nil && errors.Is(err, uerr) {
			err = fmt.Errorf("failed to calculate tx units: %w", err)
		}
		return TxOutcome{Stage: "pre", Err: err}
	}
	res, err := tx.Execute(ctx, fm, bh, env.Rules, tsv, now)
	if err != nil {
		return TxOutcome{Stage: "exec", Err: err}
	}
	tsv.Commit()
	return TxOutcome{Stage: "ok", Result: res}
}

func OutputsString(outs [][]byte) string {
	if len(outs) == 0 {
		return "none"
	}
	f := make([]string, len(outs))
	for i, o := range outs {
		f[i] = verifh.Hex(o)
	}
	return strings.Join(f, ",")
}

// OutcomeString is the canonical output line of a processed transaction.
func (c *Chain) OutcomeString(o TxOutcome) string {
	switch o.Stage {
	case "pre":
		return "pre " + ClassErr(o.Err)
	case "exec":
		return "exec " + ClassErr(o.Err)
	}
	r := o.Result
	succ := "0"
	if r.Success {
		succ = "1"
	}
	return fmt.Sprintf("ok %s %s fee=%d units=%s outs=%s state=%s", succ, Class(string(r.Error)), r.Fee, DimsString(r.Units), OutputsString(r.Outputs), c.StateString())
}

func U64(b []byte) (uint64, bool) {
	if len(b) != 8 {
		return 0, false
	}
	var v uint64
	for _, x := range b {
		v = v<<8 | uint64(x)
	}
	return v, true
}

func PutU64(v uint64) []byte {
	b := make([]byte, 8)
	for i := 7; i >= 0; i-- {
		b[i] = byte(v)
		v >>= 8
	}
	return b
}
