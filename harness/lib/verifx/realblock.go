package verifx

import (
	"context"
	"fmt"
	"sort"
	"strings"
	"time"

	"github.com/ava-labs/avalanchego/database/memdb"
	"github.com/ava-labs/avalanchego/ids"
	"github.com/ava-labs/avalanchego/snow/engine/snowman/block"
	"github.com/ava-labs/avalanchego/trace"
	"github.com/ava-labs/avalanchego/utils/logging"
	"github.com/ava-labs/avalanchego/x/merkledb"
	"github.com/prometheus/client_golang/prometheus"

	"github.com/ava-labs/hypersdk/chain"
	"github.com/ava-labs/hypersdk/chain/chaintest"
	"github.com/ava-labs/hypersdk/fees"
	"github.com/ava-labs/hypersdk/genesis"
	"github.com/ava-labs/hypersdk/internal/validitywindow/validitywindowtest"
	"github.com/ava-labs/hypersdk/internal/verifh"
	"github.com/ava-labs/hypersdk/internal/workers"
	"github.com/ava-labs/hypersdk/state/metadata"
)

// Real blocks: the same multi-transaction sequences that Chain.Process replays one by one are
// run through the REAL per-transaction closures — chain.Processor.Execute (executeTxs,
// writeBlockContext, createView(ChangedKeys)) and chain.Builder.BuildBlock — on a merkledb
// parent state; oracles are evaluated on the returned results and post-state view.

type RealBlocks struct {
	Ctx context.Context
	BH  chain.BalanceHandler
	MM  chain.MetadataManager
}

func NewRealBlocks(bh chain.BalanceHandler) *RealBlocks {
	return &RealBlocks{Ctx: context.Background(), BH: bh, MM: metadata.NewDefaultManager()}
}

// BlockRules: default rules with the given minimum (= next block's) unit prices and a window
// target far away (the builder's early-stop heuristic never triggers).
func BlockRules(prices fees.Dimensions) *genesis.Rules {
	rules := genesis.NewDefaultRules()
	rules.MinUnitPrice = prices
	rules.WindowTargetUnits = fees.Dimensions{1 << 40, 1 << 40, 1 << 40, 1 << 40, 1 << 40}
	return rules
}

func (rb *RealBlocks) parentDB(parent map[string][]byte, parentTs int64) merkledb.MerkleDB {
	db, err := merkledb.New(rb.Ctx, memdb.New(), merkledb.Config{BranchFactor: merkledb.BranchFactor16, Tracer: trace.Noop})
	if err != nil {
		panic(err)
	}
	put := func(k, v []byte) {
		if err := db.Put(k, v); err != nil {
			panic(err)
		}
	}
	put(chain.HeightKey(rb.MM.HeightPrefix()), PutU64(0))
	put(chain.TimestampKey(rb.MM.TimestampPrefix()), PutU64(uint64(parentTs)))
	put(chain.FeeKey(rb.MM.FeePrefix()), []byte{})
	for k, v := range parent {
		put([]byte(k), v)
	}
	return db
}

type RealOut struct {
	Err     error
	Results []*chain.Result
	Prices  fees.Dimensions
	Txs     []*chain.Transaction // the block's transactions (builder: the ones it included)
	// State is the post-state restricted to everything except the three metadata keys.
	State map[string][]byte
}

// postState commits the output view and enumerates the whole post-state.
func (rb *RealBlocks) postState(db merkledb.MerkleDB, view merkledb.View) map[string][]byte {
	if err := view.CommitToDB(rb.Ctx); err != nil {
		panic(err)
	}
	meta := map[string]bool{
		string(chain.HeightKey(rb.MM.HeightPrefix())):       true,
		string(chain.TimestampKey(rb.MM.TimestampPrefix())): true,
		string(chain.FeeKey(rb.MM.FeePrefix())):             true,
	}
	out := map[string][]byte{}
	it := db.NewIterator()
	defer it.Release()
	for it.Next() {
		if meta[string(it.Key())] {
			continue
		}
		out[string(it.Key())] = append([]byte{}, it.Value()...)
	}
	return out
}

// Verify runs chain.Processor.Execute on a block of txs (timestamp blockTs) over the parent state.
func (rb *RealBlocks) Verify(rules *genesis.Rules, parent map[string][]byte, blockTs int64, txs []*chain.Transaction) RealOut {
	db := rb.parentDB(parent, blockTs-1000)
	root, err := db.GetMerkleRoot(rb.Ctx)
	if err != nil {
		panic(err)
	}
	blk, err := chain.NewStatelessBlock(ids.Empty, blockTs, 1, txs, root, &block.Context{})
	if err != nil {
		panic(err)
	}
	return rb.verifyBlock(rules, db, chain.NewExecutionBlock(blk))
}

func (rb *RealBlocks) verifyBlock(rules *genesis.Rules, db merkledb.MerkleDB, eb *chain.ExecutionBlock) RealOut {
	metrics, err := chain.NewMetrics(prometheus.NewRegistry())
	if err != nil {
		panic(err)
	}
	vw := &validitywindowtest.MockTimeValidityWindow[*chain.Transaction]{}
	p := chain.NewProcessor(trace.Noop, &logging.NoLog{}, &genesis.ImmutableRuleFactory{Rules: rules}, workers.NewSerial(),
		chaintest.NewDummyTestAuthEngines(), rb.MM, rb.BH, vw, metrics, chain.NewDefaultConfig())
	out, err := p.Execute(rb.Ctx, db, eb, true)
	if err != nil {
		return RealOut{Err: err}
	}
	return RealOut{Results: out.ExecutionResults.Results, Prices: out.ExecutionResults.UnitPrices, Txs: eb.StatelessBlock.Txs, State: rb.postState(db, out.View)}
}

type oneShotMempool struct{ txs []*chain.Transaction }

func (m *oneShotMempool) Len(context.Context) int                        { return len(m.txs) }
func (*oneShotMempool) Size(context.Context) int                         { return 0 }
func (m *oneShotMempool) Add(_ context.Context, t []*chain.Transaction)   { m.txs = append(m.txs, t...) }
func (*oneShotMempool) StartStreaming(context.Context)                   {}
func (*oneShotMempool) PrepareStream(context.Context, int)               {}
func (*oneShotMempool) FinishStreaming(_ context.Context, r []*chain.Transaction) int { return len(r) }
func (m *oneShotMempool) Stream(context.Context, int) []*chain.Transaction {
	t := m.txs
	m.txs = nil
	return t
}

// Build runs chain.Builder.BuildBlock with exactly txs in the mempool (in this order) at the
// current wall-clock time and then lets a Processor verify the built block on a copy of the
// parent state. Returns the builder's and the verifier's outputs.
func (rb *RealBlocks) Build(rules *genesis.Rules, parent map[string][]byte, txs []*chain.Transaction) (RealOut, RealOut) {
	base := (time.Now().UnixMilli() / 1000) * 1000
	db := rb.parentDB(parent, base-1000)
	parentBlk, err := chain.NewStatelessBlock(ids.Empty, base-1000, 0, nil, ids.Empty, &block.Context{})
	if err != nil {
		panic(err)
	}
	metrics, err := chain.NewMetrics(prometheus.NewRegistry())
	if err != nil {
		panic(err)
	}
	vw := &validitywindowtest.MockTimeValidityWindow[*chain.Transaction]{}
	b := chain.NewBuilder(trace.Noop, &genesis.ImmutableRuleFactory{Rules: rules}, &logging.NoLog{}, rb.MM, rb.BH,
		&oneShotMempool{txs: txs}, vw, metrics, chain.NewDefaultConfig())
	eb, out, err := b.BuildBlock(rb.Ctx, &block.Context{}, &chain.OutputBlock{ExecutionBlock: chain.NewExecutionBlock(parentBlk), View: db})
	if err != nil {
		return RealOut{Err: err}, RealOut{}
	}
	built := RealOut{Results: out.ExecutionResults.Results, Prices: out.ExecutionResults.UnitPrices, Txs: eb.StatelessBlock.Txs}
	// the verifier works on its own copy of the parent state
	ver := rb.verifyBlock(rules, rb.parentDB(parent, base-1000), eb)
	built.State = rb.postState(db, out.View)
	return built, ver
}

func StateStringOf(universe [][]byte, st map[string][]byte) string {
	inU := map[string]bool{}
	for _, k := range universe {
		inU[string(k)] = true
	}
	ks := make([]string, 0, len(st))
	for k := range st {
		ks = append(ks, k)
	}
	sort.Strings(ks)
	var parts []string
	for _, k := range ks {
		p := verifh.Hex([]byte(k)) + "=" + verifh.Hex(st[k])
		if !inU[k] {
			p = "!outside-universe:" + p
		}
		parts = append(parts, p)
	}
	if len(parts) == 0 {
		return "empty"
	}
	return strings.Join(parts, ",")
}

func ResultsEqual(a, b *chain.Result) bool {
	if a.Success != b.Success || a.Fee != b.Fee || a.Units != b.Units || string(a.Error) != string(b.Error) || len(a.Outputs) != len(b.Outputs) {
		return false
	}
	for i := range a.Outputs {
		if string(a.Outputs[i]) != string(b.Outputs[i]) {
			return false
		}
	}
	return true
}

func ErrTag(err error) string {
	if err == nil {
		return "ok"
	}
	return fmt.Sprintf("err:%s", ClassErr(err))
}
