// Package verifh is the shared part of the /verif correspondence harness. It is never
// committed to /repo: `go test -overlay` maps it to /repo/internal/verifh at build time.
package verifh

import (
	"bufio"
	"encoding/hex"
	"encoding/json"
	"fmt"
	"os"
	"path/filepath"
	"sort"
	"strconv"
	"strings"
	"time"
)

// RNG is splitmix64; every random choice of a harness derives from VERIF_SEED.
type RNG struct{ s uint64 }

// NewRNG hashes the seed first: the stream for seed k+1 must not be the stream for seed k
// shifted by one draw.
func NewRNG(seed uint64) *RNG {
	z := seed + 0x9E3779B97F4A7C15
	z = (z ^ (z >> 30)) * 0xBF58476D1CE4E5B9
	z = (z ^ (z >> 27)) * 0x94D049BB133111EB
	return &RNG{s: z ^ (z >> 31)}
}

func (r *RNG) U64() uint64 {
	r.s += 0x9E3779B97F4A7C15
	z := r.s
	z = (z ^ (z >> 30)) * 0xBF58476D1CE4E5B9
	z = (z ^ (z >> 27)) * 0x94D049BB133111EB
	return z ^ (z >> 31)
}

// Intn returns a value in [0,n).
func (r *RNG) Intn(n int) int {
	if n <= 0 {
		return 0
	}
	return int(r.U64() % uint64(n))
}

func (r *RNG) Bool() bool        { return r.U64()&1 == 1 }
func (r *RNG) Chance(p int) bool { return r.Intn(100) < p }

// Pick64 returns a boundary-heavy 64-bit value.
func (r *RNG) Pick64() uint64 {
	switch r.Intn(10) {
	case 0:
		return 0
	case 1:
		return 1
	case 2:
		return ^uint64(0)
	case 3:
		return ^uint64(0) - uint64(r.Intn(4))
	case 4:
		return uint64(1) << uint(r.Intn(64))
	case 5:
		return (uint64(1) << uint(r.Intn(64))) - 1
	case 6:
		return (uint64(1) << uint(r.Intn(64))) + 1
	case 7:
		return uint64(r.Intn(1000))
	default:
		return r.U64() >> uint(r.Intn(64))
	}
}

func (r *RNG) Bytes(n int) []byte {
	b := make([]byte, n)
	for i := range b {
		b[i] = byte(r.U64())
	}
	return b
}

// Hex renders bytes in the line protocol ("-" = empty).
func Hex(b []byte) string {
	if len(b) == 0 {
		return "-"
	}
	return hex.EncodeToString(b)
}

func UnHex(s string) ([]byte, error) {
	if s == "-" {
		return []byte{}, nil
	}
	return hex.DecodeString(s)
}

func MustUnHex(s string) []byte {
	b, err := UnHex(s)
	if err != nil {
		panic(err)
	}
	return b
}

func U(s string) uint64 {
	v, err := strconv.ParseUint(s, 10, 64)
	if err != nil {
		panic(fmt.Sprintf("bad uint %q", s))
	}
	return v
}

func I(s string) int64 {
	v, err := strconv.ParseInt(s, 10, 64)
	if err != nil {
		panic(fmt.Sprintf("bad int %q", s))
	}
	return v
}

// Run is one harness execution: it owns the output files under VERIF_OUT.
type Run struct {
	ID     string
	Seed   uint64
	Tier   string
	OutDir string
	Replay string
	RNG    *RNG

	ops, impl, oracle *bufio.Writer
	files             []*os.File
	n                 int
	start             time.Time

	counts     map[string]int
	distinct   map[string]struct{}
	samples    []string
	violations int
	facts      map[string]string
	extra      map[string]any
}

func env(k, d string) string {
	if v := os.Getenv(k); v != "" {
		return v
	}
	return d
}

// Start opens a run for property id. Environment: VERIF_SEED, VERIF_TIER, VERIF_OUT,
// VERIF_REPLAY (ops file to re-execute instead of generating).
func Start(id string) *Run {
	seed, _ := strconv.ParseUint(env("VERIF_SEED", "1"), 10, 64)
	r := &Run{
		ID: id, Seed: seed, Tier: env("VERIF_TIER", "quick"),
		OutDir: env("VERIF_OUT", filepath.Join(os.TempDir(), "verif-"+id)),
		Replay: os.Getenv("VERIF_REPLAY"),
		RNG:    NewRNG(seed), start: time.Now(),
		counts: map[string]int{}, distinct: map[string]struct{}{},
		facts: map[string]string{}, extra: map[string]any{},
	}
	if err := os.MkdirAll(r.OutDir, 0o755); err != nil {
		panic(err)
	}
	open := func(name string) *bufio.Writer {
		f, err := os.Create(filepath.Join(r.OutDir, name))
		if err != nil {
			panic(err)
		}
		r.files = append(r.files, f)
		return bufio.NewWriterSize(f, 1<<16)
	}
	r.ops, r.impl, r.oracle = open("ops.txt"), open("impl.out"), open("oracle.txt")
	return r
}

func (r *Run) Thorough() bool { return r.Tier == "thorough" }

// N scales an iteration budget by tier (VERIF_SCALE overrides the thorough factor).
func (r *Run) N(quick, thorough int) int {
	if r.Thorough() {
		return thorough
	}
	return quick
}

// ReplayLines returns the op lines of VERIF_REPLAY (comments and blank lines dropped,
// and anything after a "--- " separator ignored), or nil when generating.
func (r *Run) ReplayLines() []string {
	if r.Replay == "" {
		return nil
	}
	data, err := os.ReadFile(r.Replay)
	if err != nil {
		panic(err)
	}
	var out []string
	for _, l := range strings.Split(string(data), "\n") {
		l = strings.TrimSpace(l)
		if strings.HasPrefix(l, "--- ") {
			break
		}
		if l == "" || strings.HasPrefix(l, "#") {
			continue
		}
		out = append(out, l)
	}
	if out == nil {
		out = []string{}
	}
	return out
}

// Emit records one op line and the implementation's canonical output for it.
func (r *Run) Emit(op, out string) {
	if strings.ContainsAny(out, "\n\r") {
		out = strings.ReplaceAll(strings.ReplaceAll(out, "\n", "\\n"), "\r", "\\r")
	}
	if out == "" {
		out = "-"
	}
	fmt.Fprintln(r.ops, op)
	fmt.Fprintln(r.impl, out)
	r.n++
	if w := strings.SplitN(op, " ", 2); len(w) > 0 {
		r.counts["op:"+w[0]]++
	}
	r.counts["out:"+classify(out)]++
	if len(r.samples) < 5 || (r.n%997 == 0 && len(r.samples) < 12) {
		r.samples = append(r.samples, op+" => "+out)
	}
}

func classify(out string) string {
	w := strings.SplitN(out, " ", 2)[0]
	if len(w) > 24 {
		w = "long"
	}
	if _, err := strconv.ParseUint(w, 10, 64); err == nil {
		return "num"
	}
	if len(w) >= 8 {
		if _, err := hex.DecodeString(w); err == nil {
			return "hex"
		}
	}
	return w
}

// Line is the 1-based number of the most recently emitted op line.
func (r *Run) Line() int { return r.n }

// Count adds to a named distribution counter written into stats.json.
func (r *Run) Count(k string) { r.counts[k]++ }

// Distinct records a case signature; Nontrivial cases are those for which the harness
// calls Distinct (each harness states its rule in the check config).
func (r *Run) Distinct(sig string) { r.distinct[sig] = struct{}{} }

// Violation records that the implementation's outputs contradict the property itself.
// key is a stable class of the failing input (matched against KNOWN_FINDINGS.txt).
func (r *Run) Violation(key string, format string, a ...any) {
	r.violations++
	fmt.Fprintf(r.oracle, "violation key=%s line=%d %s\n", key, r.n, strings.ReplaceAll(fmt.Sprintf(format, a...), "\n", " "))
}

// ViolationAt is Violation with an explicit inclusive op-line range [from,to].
func (r *Run) ViolationAt(key string, from, to int, format string, a ...any) {
	r.violations++
	fmt.Fprintf(r.oracle, "violation key=%s line=%d from=%d %s\n", key, to, from, strings.ReplaceAll(fmt.Sprintf(format, a...), "\n", " "))
}

// Flush writes the buffered op / output / oracle lines to disk, so that what was found so far
// survives a crash of the process under test (e.g. a panic in a goroutine of the code under test).
func (r *Run) Flush() {
	for _, w := range []*bufio.Writer{r.ops, r.impl, r.oracle} {
		w.Flush()
	}
}

// Fact records a constant read from the running code (regenerated into Lean each run).
func (r *Run) Fact(name string, v any) { r.facts[name] = fmt.Sprint(v) }

func (r *Run) Extra(k string, v any) { r.extra[k] = v }

// Finish flushes everything and writes stats.json.
func (r *Run) Finish() {
	for _, w := range []*bufio.Writer{r.ops, r.impl, r.oracle} {
		w.Flush()
	}
	for _, f := range r.files {
		f.Close()
	}
	keys := make([]string, 0, len(r.facts))
	for k := range r.facts {
		keys = append(keys, k)
	}
	sort.Strings(keys)
	var fb strings.Builder
	for _, k := range keys {
		fmt.Fprintf(&fb, "%s %s\n", k, r.facts[k])
	}
	_ = os.WriteFile(filepath.Join(r.OutDir, "facts.txt"), []byte(fb.String()), 0o644)
	st := map[string]any{
		"property": r.ID, "seed": r.Seed, "tier": r.Tier, "lines": r.n,
		"distinct_nontrivial": len(r.distinct), "counts": r.counts,
		"samples": r.samples, "oracle_violations": r.violations,
		"harness_wall_s": time.Since(r.start).Seconds(), "replay": r.Replay != "",
		"extra": r.extra,
	}
	b, _ := json.MarshalIndent(st, "", " ")
	if err := os.WriteFile(filepath.Join(r.OutDir, "stats.json"), b, 0o644); err != nil {
		panic(err)
	}
}

// Err canonicalises an error to "ok" or "err".
func Err(err error) string {
	if err == nil {
		return "ok"
	}
	return "err"
}

// Fields splits an op line.
func Fields(l string) []string { return strings.Fields(l) }
